#!/bin/bash
# tools_seed.sh <seed-id> <source-dir> <property> [demo-pkg]
#   Takes a seeded change produced by a sub-agent (patch.diff, demo_test.go, notes.txt),
#   confirms it in a scratch worktree (compiles, existing tests pass, demo fails with the
#   change and passes without), stores it under /verif/seeded/<seed-id>/, then applies it to
#   /repo, runs the property's quick check and reverts.
export GOFLAGS=-mod=mod GOPROXY=off GOSUMDB=off GOTOOLCHAIN=local
ID=$1; SRC=$2; PROP=$3
if [ -n "$(git -C /repo status --porcelain --untracked-files=no)" ]; then echo "REFUSING: /repo has uncommitted changes (they would be lost by the revert)"; exit 2; fi
PKG=${4:-$(cat $SRC/demo_pkg.txt 2>/dev/null | tr -d ' \n')}
PKG=${PKG:-lib/btc}
DST=/verif/seeded/$ID
mkdir -p $DST
cp $SRC/patch.diff $DST/patch.diff
cp $SRC/demo_test.go $DST/demo_test.go
[ -f $SRC/notes.txt ] && cp $SRC/notes.txt $DST/notes.txt
W=$(mktemp -d /tmp/confirm.XXXXXX); rmdir $W
git -C /repo worktree add -q --detach $W HEAD || exit 2
trap "git -C /repo worktree remove --force $W" EXIT
cd $W
TESTPKGS="./lib/btc/ ./lib/script/ ./lib/utxo/ ./lib/secp256k1/ ./lib/others/bech32/ ./wallet/"
base_demo() { cp $DST/demo_test.go $W/$PKG/zz_demo_seed_test.go; (cd $W/$PKG && go test -vet=off -count=1 -run 'Demo' . 2>&1 | tail -15); rm -f $W/$PKG/zz_demo_seed_test.go; }
echo "== demo on unchanged code (must pass)"; R0=$(base_demo); echo "$R0" | tail -3
if ! git apply --check $DST/patch.diff 2>/dev/null; then echo "PATCH DOES NOT APPLY"; echo '{"status":"patch does not apply"}' > $DST/confirm.json; exit 1; fi
git apply $DST/patch.diff
echo "== build"; B=$(go build ./lib/... ./client/... ./wallet/... 2>&1 | grep -v "sipadll\|sipasec\|os_membinds\|verify_script\|^#" | head -5); echo "${B:-ok}"
echo "== existing tests with the change"; T=$(go test -vet=off -count=1 $TESTPKGS 2>&1 | grep -E "^(ok|FAIL|---)" ); echo "$T"
echo "== demo with the change (must fail)"; R1=$(base_demo); echo "$R1" | tail -6
P0=$(echo "$R0" | grep -c "^ok"); F1=$(echo "$R1" | grep -c "^FAIL")
EXIST_FAIL=$(echo "$T" | grep "^--- FAIL" | grep -v TestTaprootScritps | wc -l)
cd /verif
echo "== check $PROP on /repo with the change applied"
EVSAVE=$(mktemp); cp /verif/evidence/$PROP.json $EVSAVE 2>/dev/null
git -C /repo apply $DST/patch.diff && OUT=$(/verif/check $PROP quick 2>&1); RC=$?; git -C /repo checkout -- .
cp $EVSAVE /verif/evidence/$PROP.json 2>/dev/null; rm -f $EVSAVE   # the evidence file describes runs on the unchanged tree only
echo "$OUT" | grep -E "VIOLATION|UNDECIDED|^property" | cut -c1-260
DET=$(echo "$OUT" | grep -c "^VIOLATION")
python3 - <<EOF
import json
json.dump({"seed":"$ID","property":"$PROP","demo_pkg":"$PKG","demo_passes_on_unchanged":$P0>0,"demo_fails_with_change":$F1>0,
 "existing_tests_failing_with_change":$EXIST_FAIL,"check_exit":$RC,"check_violation_lines":$DET,
 "check_obligations":[l.split("obligation=")[1].split()[0] for l in """$OUT""".splitlines() if l.startswith("VIOLATION")]},open("$DST/confirm.json","w"),indent=1)
EOF
cat $DST/confirm.json
