#!/usr/bin/env python3
# Regenerates /verif/MANIFEST.json from the table below (keeps it valid and current).
import json, subprocess

NA = {
 "C06": "whole-history property over a pointer-linked block tree, map-based UTXO buckets, undo files and float64 work sums; no per-call contract expresses it and the property itself is an induction over delivery histories",
 "C07": "quantifies over crash points between file-system effects; a deductive function verifier has no notion of crash or durable state",
 "C11": "purely about interleavings; this family has no concurrency logic (only sequential lock-balance facts under C18 touch it)",
 "C12": "invariant over operation histories of eight mutually referencing maps and pointer lists (client/txpool); needs a heap logic for pointer-holding maps plus induction over histories",
 "C16": "BlockDB is maps + a channel queue + mutexes + files, and the lossless compressor (snappy) is assembly on amd64; nothing of the property is a contract on Go code readable into SSA",
 "C17": "history invariant over [5]map[...]*OneAllAddrBal updated by callbacks from parallel workers",
 "C19": "map + files + crash points (qdb); same reasons as C07/C16",
 "C20": "unsafe raw memory viewed alternately as SliceHeader and four-pointer node, per-class mutexes, channel page cache, mmap; needs separation logic over overlaid raw memory plus concurrency",
}
PENDING = "contract-based check not built yet in this commit (planned, DESIGN.md section 5); will be claimed once its obligations are in the baseline"

TECH = "contract-based deductive verification: pre/postconditions, loop invariants and variants, frame conditions on the real Go functions (go/ssa), VCs discharged by SMT (z3 5.1 / z3 4.8 / cvc5 1.0)"
NOTE = ("Trusted: the gocv translator (SSA->SMT, memory model, panic edges), the SMT solvers (raced; disagreement aborts), go/types+go/ssa, "
        "Go type safety (typed memory, slices <= 2^48 elements), the listed library models, assumed contracts listed in the evidence file. "
        "Sequential reading only; abstracted calls are assumed not to panic.")

CLAIMS = {
 "C01": "Unbounded proofs of the leaf predicates the script verdict is assembled from, each against a closed-form spec written from the BIP text: GetOpcode (exact opcode / push bytes / length for all four push encodings, progress >= 1), IsPushOnly and the sig-op scanners (termination, index safety), IsP2SH, IsWitnessProgram (BIP141), DecodeOP_N, IsValidSignatureEncoding (= the nine BIP66 rules, no index out of range for any byte string), IsDefinedHashtypeSignature, pubkey-encoding predicates and their flag logic, checkMinimalPush (BIP62), CheckSequence (BIP112). Equality of the composed verdict of evalScript with consensus is NOT decided.",
 "C03": "Unbounded proofs of the acceptance preconditions of the verifiers, for every byte string: ecdsa_verify returns 1 only if both DER integers lie in [1, n-1]; Signature.ParseBytes is total (no index out of range) and on success R and S are exactly the big-endian values of the two INTEGER bodies; XY.ParsePubkey / ParseXOnlyPubkey accept only coordinates below p and return IsValid() of the resulting point (on-curve predicate uninterpreted, IsValid and SetXO assumed); SchnorrVerify returns true only if len(sig)=64, r < p, s < n and the key is a valid x coordinate; Signature.Bytes (the library's own serialisation) is strict DER for every 0 < R,S < 2^256: two INTEGERs, each minimal and non-negative, all length bytes consistent (math/big.Int.Bytes modelled as the minimal big-endian magnitude). The verification equations over the group (Signature.Verify, ECmult), signing, low-S of own signatures and equality with reference outputs are NOT decided (assumed contracts listed in the evidence).",
 "C04": "Unbounded proofs: CheckTransaction returns nil only if inputs and outputs are non-empty, 4*NoWitSize <= 4e6, a coinbase script is 2..100 bytes, no non-coinbase input is null, every output value <= MAX_MONEY and the mathematical sum of outputs <= MAX_MONEY (recursive spec sum, no wrap); IsCoinBase/IsNull/allzeros exact; GetBlockReward = floor(50e8 / 2^floor(h/210000)), 0 from 33 halvings on; sig-op scanners terminate and stay in bounds. Input-side sums, maturity, UTXO existence and atomicity inside commitTxs are NOT decided.",
 "C05": "Unbounded proofs of context-free pieces: Tx.IsFinal equals Bitcoin's IsFinalTx; Tx.Weight = 3*stripped+total and Tx.VSize = ceil(weight/4) (BIP141); UintToScript(n) is the minimal script-number push of n (OP_0, OP_1..16, or the shortest positive little-endian encoding) as BIP34 requires. The compact-target codec, proof-of-work comparison, retargeting, median time, merkle/mutation and the orchestration in PreCheckBlock/PostCheckBlock are NOT decided yet.",
 "C08": "Limb layer of the 5x52 field, proved for all limb values within the stated magnitudes, in exact integer arithmetic: Field.Mul and Field.Sqr (inputs of magnitude <= 8): no 64-bit or 128-bit intermediate overflows - every discarded bits.Add64 carry is zero -, the result has magnitude 1 and value(r) = value(a)*value(b) (mod p), with r allowed to alias a and b; Normalize (magnitude <= 32): canonical output < p, congruent to the input; Negate, SetAdd, MulInt: no limb over/underflow, exact value equations, magnitude bookkeeping; SetInt, IsZero, IsOdd, Equals. The congruences are discharged by a mod-witness tactic whose output (quotient polynomial K and remainder Rest) is checked by the solver, not trusted. NOT decided yet: SetB32/GetB32, Inv/Sqrt chains, the Jacobian group formulas, the precomputed tables, ECmult/ECmultGen; the 10x26 representation is not compiled on this platform.",
 "C09": "Unbounded proof, per function and for every input byte string, of: CompactSize decoding (VLen/VULe: exact value, size, canonical-only, non-negative) and encoding (PutULe/PutVlen/VLenSize) against closed-form spec functions; NewTxIn/NewTxOut/TxInSize/TxOutSize exact consumed size; NewTx: total (every panic is recovered into (nil,0)), consumes between 10 and len(b) bytes, no nil input/output, witness-count = input-count, a witness-flagged tx carries a witness, every make() bounded by len(b), nothing but fresh memory written; TxSize: result within [0,len(b)], every loop iteration consumes input (variant len(b)-offs). Byte-exact re-encoding, txid/wtxid and block-level decoding are not decided by this check yet.",
 "C10": "Unbounded proofs: CompressAmount equals the closed-form amount code and DecompressAmount its inverse, with the round-trip lemma Decompress(Compress(n)) = n for all n < 2^60 (split by exponent 0..9); CompressScript/DecompressScript byte-exact contracts and the round trip Decompress(Compress(s)) = s for P2PKH, P2SH and compressed-key P2PK (harness proved from the two contracts), verbatim path (nil) for everything else; CompactSize codec shared with C09. Record (de)serialisers (SerializeU/C, NewUtxoRec*) and snapshot files are NOT decided; the uncompressed-key P2PK path rests on assumed secp256k1 contracts.",
}
CLAIMS_EXTRA = {
 "C13": "Unbounded proofs of the amount arithmetic on the way from the command line to the transaction: StringToSatoshis never wraps (an accepted amount is exactly 1e8*whole + fraction in mathematical integers, larger inputs are errors); parse_spend never wraps when the fee is subtracted from the first amount or when the requested amounts are summed, and keeps its frame (only sendTo and spendBtc change); NewSpendOutputs returns exactly one fresh output carrying exactly the requested amount. The value flow inside make_signed_tx (inputs = outputs + change + fee over the built transaction), signing frames/layout and consensus validity of the signatures are NOT decided (a draft contract is kept in drafts/).",
 "C14": "Unbounded proofs: the BIP32 version-byte tables (IsPublic/IsPrivate/IsTestnetHDPrefix, PublishHDPrefix, HDKeyPrefix) are exact and mutually consistent (publishing a private version yields the public version of the same network and script type); ByteCheck accepts only 82 bytes with a known version (and, for public versions, a valid point); StringWallet is total on every string and an accepted key has a 32-byte chain code and a 33-byte key; DeriveNextPrivate is total and always returns 32 bytes; HDWallet.Child on a well-formed wallet (33-byte key, 32-byte chain code, known version, no hardened derivation from a public key) does not panic and the child carries the parent's version, depth+1, the index and a 32-byte chain code; ShaHash/RimpHash write only their output. The child-key algebra (public = private consistency), HMAC input layout, Base58, BIP39 and end-to-end determinism of the wallet binary are NOT decided; PublicFromPrivate/DeriveNextPublic/Decodeb58 are assumed frames.",
 "C02": "Unbounded proofs of the decision logic of the BIP143 and taproot signature hashes: WitnessSigHash returns a 32-byte digest, releases hashLock, and decides which component hashes exist from the ANYONECANPAY bit and the low five bits of the hash type only (SINGLE and NONE never touch the all-outputs and sequence caches, ANYONECANPAY never touches the prevouts and sequence caches, every other type fills them); for taproot: TaprootSigHash yields no digest (nil) for a hash type outside {0,1,2,3,0x81,0x82,0x83} and for SIGHASH_SINGLE without a matching output, otherwise a 32-byte digest; its hashLock is released on every return; CheckSchnorrSignature accepts only 64-byte signatures or 65-byte ones with an explicit, non-default, defined hash type and fails when there is no digest; IsDefinedHashtypeSignature exact; WriteVlen appends exactly the canonical CompactSize bytes to the hasher (ghost byte buffer). Index/nil safety inside the cache-filling loops, the byte layout of the three preimages, the legacy and BIP143 algorithms, cache coherence and concurrent fills are NOT decided yet (hash functions are uninterpreted).",
 "C18": "Unbounded proofs, for every byte sequence a peer can send, of the receive path and the message handlers: FetchMessage (header/payload assembly, the 'encrypted' length bit refused without a key, receive-state invariant), the dispatch loop OneConnection.Run (its logging recover gives no credit: every handler is called with no mutex held and with its preconditions; ping/feefilter/sendcmpct/authack inline code), HandleVersion, AuthRvcd (xauth), ParseAddr, ProcessInv, ProcessGetData/processGetData, HandleHeaders, GetHeaders (FindPathTo's deliberate panic is recovered and the chain lock released on that exit too), GetBlocks, parseLocatorsPayload, ProcessGetBlockTxn, ProcessBlockTxn, ProcessCmpctBlock, netBlockReceived, ParseTxNet, ProcessGetMP, HandlePong, the connection helpers (DoS, Disconnect, Misbehave, InvStore, MutexSetBool, counters) and the library entry points behind them (VLen/VULe, ReadVLen, NewTx, TxSize, NewBlock/UpdateContent, SetHash, Serialize, WriteSerialized, GetOpcode and the script scanners, peersdb.NewPeer, bech32.Decode). Proved: no index/slice/conversion/make panic; every mutex taken is released on every return (also by conditionally registered deferred calls and on recovered panics) and no mutex is taken while this code already holds it; payload-driven loops have a variant (unread bytes of a ghost reader, or a checked counter); containers sized from peer counts are bounded by the payload (allocbound) in parseLocatorsPayload, HandleHeaders, ProcessGetMP, ProcessCmpctBlock, NewTx. Limits: functions marked nonilcheck (ProcessCmpctBlock, ProcessBlockTxn, ProcessGetMP, netBlockReceived, Run) do not claim nil dereferences of node-internal structures; shape facts about global maps and the chain/mempool layers are assumed (mapval/global/immutable/assumed contracts, all listed in the evidence); ProcessNewHeader is an assumed contract; five obligations are open and not claimed (evidence: open_not_claimed); pointer-chasing loops over the block tree have no variant. NOT decided: Tick, SendInvs, SendVersion, HandleGetaddr, GetMPDone, the payload size bound in FetchMessage, evalScript's recover path, message order/handshake state, anything concurrent.",
 "C15": "Unbounded proofs: bech32_polymod_step equals BIP173's step function with BIP173's five generator constants (structure and every constant pinned, xor uninterpreted); the two final constants are 1 and 0x2bc830a3; bech32.Decode is total on every string (no index out of range, loops bounded by the input), accepts only the BIP173 shape (8..90 characters, non-empty hrp, separator, data symbols < 32, six checksum symbols) and refuses every string that mixes lower-case and upper-case letters; convert_bits (5->8 and 8->5) leaves (n*inbits) mod outbits bits, produces exactly floor(n*inbits/outbits) groups (+1 when padding) and, when decoding, refuses an input that leaves a whole group of padding; SegwitDecode accepts only versions 0..16 with a program of 2..40 bytes (20 or 32 for version 0) whose length is exactly what the address length implies, and returns (0, nil, error) otherwise. The checksum algebra (decode after encode, error detection), zero-padding bits, SegwitEncode, BtcAddr and Base58 are NOT decided yet.",
}
ORDER = ["C01", "C02", "C03", "C04", "C05", "C08", "C09", "C10", "C13", "C14", "C15", "C18"]

def main():
    hooks = subprocess.check_output(['git', '-C', '/repo', 'log', '--format=%H %s']).decode().splitlines()
    m = {
        "version": 1,
        "setup_cmd": "cd /verif/engine && GOFLAGS=-mod=mod GOPROXY=off GOSUMDB=off GOTOOLCHAIN=local go build -o /verif/bin/gocv .",
        "hooks": {
            "guard": "verif",
            "enable": "go build -tags verif ./... (contract files are comment-only, lemma harness files contain functions that are never called; gocv loads packages with -tags=verif)",
            "baseline_off_cmd": "cd /repo && go test -vet=off -count=1 ./...",
            "source_commits": [l.split()[0] for l in hooks if l.split()[1] == 'verif:'],
            "add_only": True,
        },
        "engines": [{"name": "gocv", "path": "/verif/engine", "serves_properties": ORDER,
                     "kind_free_text": "home-built deductive verifier for Go: go/ssa -> reachability-predicate VCs -> SMT-LIB, raced on z3 5.1 / z3 4.8 / cvc5 1.0; contracts are //@ comments in build-tagged files inside /repo; failed obligations are replayed on the real code (go test -overlay) from solver models or a bounded counterexample search"}],
        "checks": [],
        "not_applicable": [],
        "notes": "Known findings and fixed defects: /verif/known_findings.json. Baseline of discharged obligations: /verif/baseline/obligations.json. Witness tests: /verif/witness.",
    }
    for p in ORDER:
        CLAIMS.update(CLAIMS_EXTRA)
        m["checks"].append({
            "property_id": p,
            "quick_cmd": "./check %s quick" % p,
            "thorough_cmd": "./check %s thorough" % p,
            "evidence_file": "/verif/evidence/%s.json" % p,
            "replay_cmd_template": "./check --replay {path}",
            "engine": "gocv",
            "technique": TECH,
            "level_claimed": {"category": "proof", "design_ref": "DESIGN.md section 5 (%s)" % p, "text": CLAIMS[p]},
            "level_note": NOTE,
        })
    allp = ["C%02d" % i for i in range(1, 21)]
    for p in allp:
        if p in ORDER:
            continue
        m["not_applicable"].append({"property_id": p, "reason": NA.get(p, PENDING)})
    json.dump(m, open('/verif/MANIFEST.json', 'w'), indent=1)
    print("manifest: %d checks, %d not applicable" % (len(m["checks"]), len(m["not_applicable"])))

main()
