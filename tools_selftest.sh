#!/bin/bash
# tools_selftest.sh <PROPERTY>  (run by `./check <P> thorough`)
#   Must-fail self test of the check itself: for every defect of this property that was
#   repaired with a "fix:" commit, a scratch copy of /repo's working tree gets that repair
#   reverted, and the contract check of the affected function must report it again. Works on
#   copies outside /repo and /verif; /repo is never touched. Prints one line per canary and a
#   summary; merges the summary into evidence/<P>.json (coverage.selftest). Exit code 0 always:
#   a canary that is no longer detected is a weakness of the check, not a property violation.
export GOFLAGS=-mod=mod GOPROXY=off GOSUMDB=off GOTOOLCHAIN=local
P=$1; V=/verif; BIN="${GOCV_BIN:-$V/bin/gocv}"
python3 - "$P" <<'PY' > /tmp/selftest_$$.list
import json,sys,re
p=sys.argv[1]
for f in json.load(open('/verif/known_findings.json'))['findings']:
    if f['property']==p and f['status']=='fixed':
        fn=f['obligation'].split('#')[0]
        print(f['commit'], re.escape(fn)+'$')
PY
TOTAL=0; HIT=0; MISS=""; SKIP=""
while read -r C FN; do
  [ -z "$C" ] && continue
  W=$(mktemp -d /tmp/gocv-selftest.XXXXXX)
  (cd /repo && tar cf - --exclude=.git . ) | (cd $W && tar xf -)
  if git -C /repo show $C -- . ':(exclude)*zz_verif*' | (cd $W && patch -p1 -R -s -f >/dev/null 2>&1); then
    TOTAL=$((TOTAL+1))
    OUT=$(timeout 900 $BIN check -verif $V -repo $W -prop $P -func "$FN" -timeout 8 -noreplay 2>&1)
    if echo "$OUT" | grep -q "load failed"; then TOTAL=$((TOTAL-1)); SKIP="$SKIP $C"; echo "selftest $P: the tree with $C reverted does not compile (a later repair builds on it): skipped";
    elif echo "$OUT" | grep -q "^VIOLATION"; then HIT=$((HIT+1)); echo "selftest $P: revert of $C re-detected ($(echo "$OUT" | grep -c '^VIOLATION') obligations)";
    else MISS="$MISS $C"; echo "SELFTEST-MISS $P: revert of $C is NOT detected any more"; fi
  else
    SKIP="$SKIP $C"; echo "selftest $P: $C does not revert cleanly on the current tree (skipped)"
  fi
  rm -rf $W
done < /tmp/selftest_$$.list
rm -f /tmp/selftest_$$.list
echo "selftest $P: $HIT of $TOTAL reverted repairs re-detected${SKIP:+; skipped:$SKIP}"
python3 - "$P" "$TOTAL" "$HIT" "$MISS" "$SKIP" <<'PY'
import json,sys
p,total,hit,miss,skip=sys.argv[1],int(sys.argv[2]),int(sys.argv[3]),sys.argv[4].split(),sys.argv[5].split()
f='/verif/evidence/%s.json'%p
try:
    d=json.load(open(f))
    d['coverage']['selftest']={"what":"each recorded fix: commit reverted on a scratch copy, the check of the affected function must fail","reverted_repairs":total,"re_detected":hit,"not_detected":miss,"skipped_do_not_revert_cleanly":skip}
    json.dump(d,open(f,'w'),indent=1)
except Exception as e:
    print("selftest: evidence not updated:",e)
PY
exit 0
