#!/bin/bash
# tools_selftest.sh <PROPERTY>  (run by `./check <P> thorough`)
#   Must-fail self test of the check itself: for every defect of this property that was
#   repaired with a "fix:" commit, a scratch copy of /repo's working tree gets that repair
#   reverted, and the contract check of the affected function must report it again. Works on
#   copies outside /repo and /verif; /repo is never touched. Prints one line per canary and a
#   summary; merges the summary into evidence/<P>.json (coverage.selftest). Exit code 0 always:
#   a canary that is no longer detected is a weakness of the check, not a property violation.
export GOFLAGS=-mod=mod GOPROXY=off GOSUMDB=off GOTOOLCHAIN=local
P=$1; V=/verif; BIN="${GOCV_BIN:-$V/bin/gocv}"
python3 - "$P" <<'PY' > /tmp/selftest_$$.list
import json,sys,re
p=sys.argv[1]
for f in json.load(open('/verif/known_findings.json'))['findings']:
    if f['property']==p and f['status']=='fixed':
        fn=f['obligation'].split('#')[0]
        print(f['commit'], re.escape(fn)+'$')
PY
TOTAL=0; HIT=0; MISS=""; SKIP=""
while read -r C FN; do
  [ -z "$C" ] && continue
  W=$(mktemp -d /tmp/gocv-selftest.XXXXXX)
  (cd /repo && tar cf - --exclude=.git . ) | (cd $W && tar xf -)
  if git -C /repo show $C -- . ':(exclude)*zz_verif*' | (cd $W && patch -p1 -R -s -f >/dev/null 2>&1); then
    TOTAL=$((TOTAL+1))
    OUT=$(timeout 900 $BIN check -verif $V -repo $W -prop $P -func "$FN" -timeout 8 -noreplay 2>&1)
    if echo "$OUT" | grep -q "load failed"; then TOTAL=$((TOTAL-1)); SKIP="$SKIP $C"; echo "selftest $P: the tree with $C reverted does not compile (a later repair builds on it): skipped";
    elif echo "$OUT" | grep -q "^VIOLATION"; then HIT=$((HIT+1)); echo "selftest $P: revert of $C re-detected ($(echo "$OUT" | grep -c '^VIOLATION') obligations)";
    else MISS="$MISS $C"; echo "SELFTEST-MISS $P: revert of $C is NOT detected any more"; fi
  else
    SKIP="$SKIP $C"; echo "selftest $P: $C does not revert cleanly on the current tree (skipped)"
  fi
  rm -rf $W
done < /tmp/selftest_$$.list
rm -f /tmp/selftest_$$.list
echo "selftest $P: $HIT of $TOTAL reverted repairs re-detected${SKIP:+; skipped:$SKIP}"
# second corpus: the independently seeded property-breaking changes that the check is
# recorded to catch (seeded/<id>/meta.json); each is applied to a scratch copy and the
# functions whose obligations failed then must fail again
python3 - "$P" <<'PY' > /tmp/selftest_$$.seeds
import json,sys,os,re,glob
p=sys.argv[1]
for f in sorted(glob.glob('/verif/seeded/%s-*/meta.json'%p)):
    m=json.load(open(f))
    if not m.get('check_run',{}).get('detected'): continue
    fns=sorted({o.split('#')[0] for o in m['check_run']['obligations']})
    if not fns: continue
    print(m['seed'], '|'.join('^'+re.escape(x)+'$' for x in fns))
PY
STOT=0; SHIT=0; SMISS=""
while read -r ID FN; do
  [ -z "$ID" ] && continue
  W=$(mktemp -d /tmp/gocv-selftest.XXXXXX)
  (cd /repo && tar cf - --exclude=.git . ) | (cd $W && tar xf -)
  if (cd $W && patch -p1 -s -f < $V/seeded/$ID/patch.diff >/dev/null 2>&1); then
    STOT=$((STOT+1))
    OUT=$(timeout 900 $BIN check -verif $V -repo $W -prop $P -func "$FN" -timeout 8 -noreplay 2>&1)
    if echo "$OUT" | grep -q "^VIOLATION"; then SHIT=$((SHIT+1)); echo "selftest $P: seeded change $ID re-detected ($(echo "$OUT" | grep -c '^VIOLATION') obligations)";
    else SMISS="$SMISS $ID"; echo "SELFTEST-MISS $P: seeded change $ID is NOT detected any more"; fi
  else
    echo "selftest $P: seeded change $ID does not apply to the current tree (skipped)"
  fi
  rm -rf $W
done < /tmp/selftest_$$.seeds
rm -f /tmp/selftest_$$.seeds
echo "selftest $P: $SHIT of $STOT seeded changes re-detected"
# third corpus: hand-written mutants for contracts that neither a repaired defect nor a seeded
# change exercises (mutants.txt: exact-text replacements)
MTOT=0; MHIT=0; MMISS=""
N=0
while IFS= read -r LINE; do
  N=$((N+1))
  case "$LINE" in "#"*|"") continue;; esac
  MP=$(echo "$LINE" | awk -F' [|][|][|] ' '{print $1}')
  [ "$MP" != "$P" ] && continue
  W=$(mktemp -d /tmp/gocv-selftest.XXXXXX)
  (cd /repo && tar cf - --exclude=.git . ) | (cd $W && tar xf -)
  FN=$(LINE="$LINE" python3 - "$W" <<'PY'
import os,sys
prop,f,old,new,fn=[x for x in os.environ['LINE'].split(' ||| ')]
old=old.replace('\\n','\n'); new=new.replace('\\n','\n')
p=os.path.join(sys.argv[1],f); s=open(p).read()
if old not in s:
    print('!NOAPPLY'); sys.exit(0)
open(p,'w').write(s.replace(old,new,1)); print(fn)
PY
)
  if [ "$FN" = "!NOAPPLY" ]; then echo "selftest $P: mutant at mutants.txt:$N does not apply to the current tree (skipped)"; rm -rf $W; continue; fi
  MTOT=$((MTOT+1))
  OUT=$(timeout 900 $BIN check -verif $V -repo $W -prop $P -func "$FN" -timeout 8 -noreplay 2>&1)
  if echo "$OUT" | grep -q "^VIOLATION"; then MHIT=$((MHIT+1)); echo "selftest $P: mutant mutants.txt:$N ($FN) detected ($(echo "$OUT" | grep -c '^VIOLATION') obligations)";
  else MMISS="$MMISS mutants.txt:$N"; echo "SELFTEST-MISS $P: mutant mutants.txt:$N ($FN) is NOT detected"; fi
  rm -rf $W
done < $V/mutants.txt
echo "selftest $P: $MHIT of $MTOT hand-written mutants detected"
python3 - "$P" "$TOTAL" "$HIT" "$MISS" "$SKIP" "$STOT" "$SHIT" "$SMISS" "$MTOT" "$MHIT" "$MMISS" <<'PY'
import json,sys
p,total,hit,miss,skip=sys.argv[1],int(sys.argv[2]),int(sys.argv[3]),sys.argv[4].split(),sys.argv[5].split()
stot,shit,smiss=int(sys.argv[6]),int(sys.argv[7]),sys.argv[8].split()
mtot,mhit,mmiss=int(sys.argv[9]),int(sys.argv[10]),sys.argv[11].split()
f='/verif/evidence/%s.json'%p
try:
    d=json.load(open(f))
    d['coverage']['selftest']={"what":"each recorded fix: commit reverted on a scratch copy, the check of the affected function must fail","reverted_repairs":total,"re_detected":hit,"not_detected":miss,"skipped_do_not_revert_cleanly":skip,
      "seeded_changes":{"what":"every independently seeded change recorded as caught (seeded/<id>/meta.json) applied to a scratch copy; the functions whose obligations failed must fail again","applied":stot,"re_detected":shit,"not_detected":smiss},
      "hand_written_mutants":{"what":"exact-text mutations listed in mutants.txt applied to a scratch copy; the named function's check must fail","applied":mtot,"detected":mhit,"not_detected":mmiss}}
    json.dump(d,open(f,'w'),indent=1)
except Exception as e:
    print("selftest: evidence not updated:",e)
PY
exit 0
