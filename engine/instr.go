package main

// Semantics of individual SSA instructions.

import (
	"fmt"
	"strings"
	"go/constant"
	"go/token"
	"go/types"
	"math/big"

	"golang.org/x/tools/go/ssa"
)

// ---------- values ----------

func (tr *FnTr) val(v ssa.Value) Val {
	switch x := v.(type) {
	case *ssa.Const:
		return tr.constVal(x)
	case *ssa.Global:
		id := tr.eng.globalID(x)
		known := tr.top.noteGlobal(x)
		if !known {
			// references typed earlier cannot point into this variable unless its type allows
			gt := x.Type().Underlying().(*types.Pointer).Elem()
			var cs []*Term
			for _, to := range tr.top.typedObjs {
				if !typeContains(gt, to.elem, 0) {
					cs = append(cs, Ne(to.obj, Int(id)))
				}
			}
			if len(cs) > 0 {
				tr.vc.Assume(And(cs...))
			}
		}
		return Val{T: x.Type(), L: []*Term{Int(id), Int(0)}}
	case *ssa.Function:
		return Val{T: x.Type(), L: []*Term{Int(tr.eng.funcID(x))}}
	case *ssa.Builtin:
		return Val{T: x.Type(), L: []*Term{Int(0)}}
	}
	if r, ok := tr.env[v]; ok {
		return r
	}
	panic(unsupported(fmt.Sprintf("%s: value %s (%T) used before definition", tr.fn, v.Name(), v)))
}

func (tr *FnTr) constVal(c *ssa.Const) Val {
	T := c.Type()
	if c.Value == nil { // zero value / nil
		return tr.zeroVal(T)
	}
	switch {
	case isBoolean(T):
		return Val{T: T, L: []*Term{Bool(constant.BoolVal(c.Value))}}
	case isInteger(T):
		bi, ok := new(big.Int).SetString(c.Value.ExactString(), 10)
		if !ok {
			iv := constant.ToInt(c.Value)
			bi, _ = new(big.Int).SetString(iv.ExactString(), 10)
		}
		return Val{T: T, L: []*Term{IntB(bi)}}
	case isString(T):
		s := constant.StringVal(c.Value)
		id := tr.eng.stringID(s)
		tr.eng.assumeString(tr.vc, id, s)
		return Val{T: T, L: []*Term{Int(id), Int(0), Int(int64(len(s)))}}
	}
	// floats etc.: opaque constant identified by its text
	return Val{T: T, L: []*Term{tr.vc.Fresh("fconst", SInt)}}
}

func (tr *FnTr) zeroVal(T types.Type) Val {
	lay := layoutOf(T)
	v := Val{T: T, L: make([]*Term, lay.N())}
	for i, lf := range lay.Leaves {
		if lf.K == LBool {
			v.L[i] = tFalse
		} else {
			v.L[i] = Int(0)
		}
	}
	return v
}

// ---------- memory ----------

func cellOfLeaf(lf Leaf, t *Term) *Term {
	if lf.K == LBool {
		return Ite(t, Int(1), Int(0))
	}
	return t
}

func leafOfCell(lf Leaf, c *Term) *Term {
	if lf.K == LBool {
		return Eq(c, Int(1))
	}
	return c
}

// load reads a value of type T at (obj, off) from memory m.
func (tr *FnTr) loadFrom(m, alloc, obj, off *Term, T types.Type, base string, assume bool) Val {
	lay := layoutOf(T)
	if lay.N() > 4096 {
		tr.unsupported("load of %d-cell value %s", lay.N(), T)
	}
	v := Val{T: T, L: make([]*Term, lay.N())}
	var cellTerms []*Term
	for i, lf := range lay.Leaves {
		c := readCell(m, obj, Add(off, Int(int64(i))), leafTag(lf))
		cellTerms = append(cellTerms, c)
		nm := base
		if lay.N() > 1 {
			nm = fmt.Sprintf("%s_%d", base, i)
		}
		v.L[i] = tr.vc.Def(nm, leafOfCell(lf, c))
	}
	if assume {
		if m.Op == "sym" && alloc != nil && memAllocOf != nil {
			if _, ok := memAllocOf[m.Name]; !ok {
				memAllocOf[m.Name] = alloc // (memory version, allocation counter) of a real state
			}
		}
		// a reference that was already in an older memory version is older than everything
		// allocated since
		for i, lf := range lay.Leaves {
			if lf.K == LObj && !lf.Str && v.L[i].IntConst() == nil {
				if a := allocOfCell(cellTerms[i]); a != nil && a != alloc {
					tr.vc.Assume(Implies(tr.st.Reach, Lt(v.L[i], a)))
				}
				if e, ok := boundFromCell(cellTerms[i]); ok && e < curEpoch {
					if _, isAlloc := allocEpoch[v.L[i].Key()]; !isAlloc {
						if old, has := objBound[v.L[i].Key()]; !has || e < old {
							objBound[v.L[i].Key()] = e
						}
					}
				}
			}
		}
		tr.assumeTyped(v, alloc)
	}
	return v
}

func (tr *FnTr) load(obj, off *Term, T types.Type, base string) Val {
	return tr.loadFrom(tr.st.Mem, tr.st.Alloc, obj, off, T, base, true)
}

// storeTo writes v at (obj, off) and returns the new memory.
func storeTo(m, obj, off *Term, v Val) *Term {
	lay := layoutOf(v.T)
	arr := Select(m, obj)
	for i, lf := range lay.Leaves {
		arr = Store(arr, Add(off, Int(int64(i))), cellOfLeaf(lf, v.L[i]))
		arr.Name = leafTag(lf)
	}
	return Store(m, obj, arr)
}

func (tr *FnTr) store(obj, off *Term, v Val) {
	tr.writeCheck(obj, off, Add(off, Int(int64(sizeOf(v.T)))))
	tr.st.Mem = tr.vc.Def("mem", storeTo(tr.st.Mem, obj, off, v))
}

// newObject allocates a zeroed object and returns its id.
func (tr *FnTr) newObject(base string) *Term {
	obj := tr.vc.Def(base+"_obj", tr.st.Alloc)
	if obj.IntConst() == nil {
		allocEpoch[obj.Key()] = curEpoch
		delete(objBound, obj.Key())
	}
	curEpoch++
	tr.st.Alloc = tr.vc.Def("alloc", Add(tr.st.Alloc, Int(1)))
	tr.st.Mem = tr.vc.Def("mem", Store(tr.st.Mem, obj, zeroArr))
	// Object ids are unique along every path, not across paths: allocations on mutually
	// exclusive branches may share an id term. Everything that singles out "private"
	// objects by id must therefore know every allocation site that can own the id.
	top := tr.top
	if top.owners == nil {
		top.owners = map[string][]objOwner{}
	}
	k := obj.Key()
	top.owners[k] = append(top.owners[k], objOwner{})
	if privObjKeys != nil {
		delete(privObjKeys, k) // re-established by the Alloc case when every owner is private
	}
	return obj
}

// objOwner: one allocation site that can own an object id.
type objOwner struct {
	a       *ssa.Alloc // nil: make, new in a model, fresh result of a call, ...
	private bool       // a != nil and its address never leaves the function
	depth   int
}

// idAllPrivate: is every allocation site that may own this id a private local?
func (top *FnTr) idAllPrivate(obj *Term) bool {
	os := top.owners[obj.Key()]
	if len(os) == 0 {
		return false
	}
	for _, o := range os {
		if !o.private {
			return false
		}
	}
	return true
}

func (tr *FnTr) nilCheck(obj *Term, p token.Pos) {
	tr.check("nil", Ne(obj, Int(0)), p)
}

// ---------- instructions ----------

func (tr *FnTr) instr(in ssa.Instruction) {
	switch x := in.(type) {
	case *ssa.DebugRef:
		return
	case *ssa.Alloc:
		obj := tr.newObject(tr.vname(x))
		{
			os := tr.top.owners[obj.Key()]
			os[len(os)-1] = objOwner{a: x, private: tr.private[x], depth: tr.depth}
		}
		if tr.private[x] {
			tr.top.privObjs = append(tr.top.privObjs, obj)
			if privObjKeys != nil && tr.top.idAllPrivate(obj) {
				privObjKeys[obj.Key()] = true
			}
			if tr.depth == 0 {
				if tr.top.privAllocObj == nil {
					tr.top.privAllocObj = map[*ssa.Alloc]*Term{}
				}
				tr.top.privAllocObj[x] = obj
				tr.top.privAllocList = append(tr.top.privAllocList, x)
			}
		}
		tr.env[x] = Val{T: x.Type(), L: []*Term{obj, Int(0)}}
		if strings.HasSuffix(x.Type().String(), "*bytes.Buffer") {
			tr.ghostNew(obj, Int(algBuffer))
		}
	case *ssa.UnOp:
		tr.unop(x)
	case *ssa.BinOp:
		tr.env[x] = tr.defVal(tr.vname(x), tr.binop(x.Op, tr.val(x.X), tr.val(x.Y), x.Type(), x.Pos()))
	case *ssa.Store:
		a := tr.val(x.Addr)
		tr.nilCheck(a.L[0], x.Pos())
		tr.store(a.L[0], a.L[1], tr.val(x.Val))
	case *ssa.FieldAddr:
		p := tr.val(x.X)
		tr.nilCheck(p.L[0], x.Pos())
		st := x.X.Type().Underlying().(*types.Pointer).Elem().Underlying().(*types.Struct)
		tr.env[x] = Val{T: x.Type(), L: []*Term{p.L[0], tr.vc.Def(tr.vname(x)+"_off", Add(p.L[1], Int(int64(fieldOffset(st, x.Field)))))}}
	case *ssa.Field:
		s := tr.val(x.X)
		st := x.X.Type().Underlying().(*types.Struct)
		off := fieldOffset(st, x.Field)
		n := sizeOf(st.Field(x.Field).Type())
		tr.env[x] = Val{T: x.Type(), L: s.L[off : off+n]}
	case *ssa.IndexAddr:
		tr.indexAddr(x)
	case *ssa.Index:
		tr.index(x)
	case *ssa.Slice:
		tr.slice(x)
	case *ssa.Phi:
		tr.unsupported("phi in the middle of a block")
	case *ssa.Extract:
		t := tr.val(x.Tuple)
		tp := x.Tuple.Type().(*types.Tuple)
		off := tupleOffset(tp, x.Index)
		n := sizeOf(tp.At(x.Index).Type())
		tr.env[x] = Val{T: x.Type(), L: t.L[off : off+n]}
	case *ssa.Convert:
		tr.convert(x)
	case *ssa.ChangeType:
		v := tr.val(x.X)
		tr.env[x] = Val{T: x.Type(), L: v.L}
	case *ssa.MakeInterface:
		// an interface value holding a concrete value is non-nil; its identity is opaque,
		// except for pointers, whose object id is kept (ghost buffers are keyed by it)
		if _, isPtr := x.X.Type().Underlying().(*types.Pointer); isPtr {
			tr.env[x] = Val{T: x.Type(), L: []*Term{tr.val(x.X).L[0]}}
			return
		}
		t := tr.vc.Fresh(tr.vname(x), SInt)
		tr.vc.Assume(Lt(Int(0), t))
		tr.env[x] = Val{T: x.Type(), L: []*Term{t}}
	case *ssa.ChangeInterface:
		v := tr.val(x.X)
		tr.env[x] = Val{T: x.Type(), L: v.L}
	case *ssa.TypeAssert:
		tr.abstractValue(x, "type assertion")
		if !x.CommaOk {
			// may panic; we cannot decide the dynamic type
			tr.check("typeassert", tr.vc.Fresh("ta_ok", SBool), x.Pos())
		}
	case *ssa.MakeSlice:
		ln, cp := tr.val(x.Len).L[0], tr.val(x.Cap).L[0]
		if tr.depth == 0 && tr.ct != nil && tr.ct.MakeBound != nil && !tr.top.refute {
			// allocation in proportion to the input: checked before the make executes,
			// whether or not a panic would be recovered
			ctx := tr.calleeCtx(tr.fn, tr.params, nil, tr.entry, tr.entry)
			bound := ctx.intTerm(tr.ct.MakeBound.E)
			tr.vc.Oblige("allocbound", "", Implies(tr.st.Reach, Or(Lt(cp, Int(0)), Le(cp, bound))), tr.pos(x.Pos()))
		}
		tr.check("make", And(Le(Int(0), ln), Le(ln, cp), Le(cp, maxLen)), x.Pos())
		obj := tr.newObject(tr.vname(x))
		tr.env[x] = Val{T: x.Type(), L: []*Term{obj, Int(0), ln, cp}}
	case *ssa.MakeClosure:
		v := Val{T: x.Type(), L: []*Term{Int(tr.eng.funcID(x.Fn.(*ssa.Function)))}}
		tr.env[x] = v
	case *ssa.MakeMap, *ssa.MakeChan:
		if mm, ok := x.(*ssa.MakeMap); ok && mm.Reserve != nil && tr.depth == 0 && tr.ct != nil && tr.ct.MakeBound != nil && !tr.top.refute {
			// the capacity hint of a map is allocated up front, like the capacity of a slice
			hint := tr.val(mm.Reserve).L[0]
			if hint.IntConst() == nil {
				ctx := tr.calleeCtx(tr.fn, tr.params, nil, tr.entry, tr.entry)
				bound := ctx.intTerm(tr.ct.MakeBound.E)
				tr.vc.Oblige("allocbound", "", Implies(tr.st.Reach, Or(Lt(hint, Int(0)), Le(hint, bound))), tr.pos(mm.Pos()))
			}
		}
		t := tr.vc.Fresh(tr.vname(x.(ssa.Value)), SInt)
		tr.vc.Assume(Lt(Int(0), t))
		tr.env[x.(ssa.Value)] = Val{T: x.(ssa.Value).Type(), L: []*Term{t}}
	case *ssa.Lookup:
		tr.lookup(x)
	case *ssa.Range:
		tr.abstractValue(x, "range iterator")
	case *ssa.Next:
		tr.abstractValue(x, "iterator next")
		if r, ok := x.Iter.(*ssa.Range); ok && !x.IsString {
			if mt, ok := r.X.Type().Underlying().(*types.Map); ok {
				// tuple (ok, key, value)
				v := tr.env[x]
				// unused components of the tuple have an invalid type: locate the value by
				// the tuple's own layout
				if tp, ok := x.Type().(*types.Tuple); ok && tp.Len() == 3 && types.Identical(tp.At(2).Type(), mt.Elem()) {
					off := tupleOffset(tp, 2)
					if n := sizeOf(mt.Elem()); off+n <= len(v.L) {
						tr.assumeMapVal(r.X, mt.Elem(), v.L[off:off+n], v.L[0])
					}
				}
			}
		}
	case *ssa.MapUpdate:
		tr.note("map update")
	case *ssa.Send:
		tr.note("channel send")
	case *ssa.Select:
		tr.abstractValue(x, "select")
		tr.havocAll("select")
	case *ssa.Go:
		tr.note("go statement")
		tr.havocAll("go")
	case *ssa.Defer:
		tr.defers = append(tr.defers, deferred{call: x, reach: tr.st.Reach})
	case *ssa.RunDefers:
		tr.runDefers(false)
	case *ssa.Call:
		tr.call(x)
	case *ssa.SliceToArrayPointer:
		s := tr.val(x.X)
		n := x.Type().Underlying().(*types.Pointer).Elem().Underlying().(*types.Array).Len()
		tr.check("slice2array", Ge(s.L[2], Int(n)), x.Pos())
		tr.env[x] = Val{T: x.Type(), L: []*Term{s.L[0], s.L[1]}}
	default:
		tr.unsupported("instruction %T in %s", in, tr.fn)
	}
}

func (tr *FnTr) note(what string) {
	s := fmt.Sprintf("%s: %s", tr.fn.Name(), what)
	for _, a := range tr.vc.Abstracted {
		if a == s {
			return
		}
	}
	tr.vc.Abstracted = append(tr.vc.Abstracted, s)
}

// abstractValue binds an instruction's result to fresh, typed, otherwise unconstrained leaves.
// assumeMapVal: values found in a package-level map that carries a `mapval` clause satisfy
// the declared predicate (an assumption about the code that fills the map, listed as such).
func (tr *FnTr) assumeMapVal(m ssa.Value, elem types.Type, leaves []*Term, present *Term) {
	ld, ok := m.(*ssa.UnOp)
	if !ok || ld.Op != token.MUL {
		return
	}
	var key string
	switch a := ld.X.(type) {
	case *ssa.Global:
		if a.Pkg == nil {
			return
		}
		key = a.Pkg.Pkg.Path() + "." + a.Name()
	case *ssa.FieldAddr:
		// a map held in a field of a named struct type: `mapval Type.Field: ...`
		pt, ok := a.X.Type().Underlying().(*types.Pointer)
		if !ok {
			return
		}
		nt, ok := pt.Elem().(*types.Named)
		if !ok || nt.Obj().Pkg() == nil {
			return
		}
		st, ok := nt.Underlying().(*types.Struct)
		if !ok {
			return
		}
		key = nt.Obj().Pkg().Path() + "." + nt.Obj().Name() + "." + st.Field(a.Field).Name()
	default:
		return
	}
	mv, ok := tr.eng.mapvals[key]
	if !ok {
		return
	}
	sp := tr.eng.pkgs[mv.Pkg]
	if sp == nil {
		return
	}
	ctx := &SpecCtx{tr: tr, st: tr.st, old: tr.top.entry, pkg: sp}
	ctx.bound = map[string]SV{"v": {T: elem, L: leaves}}
	ctx.guard = tr.st.Reach
	tr.vc.Assume(Implies(And(tr.st.Reach, present), ctx.fact(mv.C.E)))
	tr.vc.Assumed = appendUniq(tr.vc.Assumed, "assumed invariant of the values of map "+shortPkg(mv.Pkg)+"."+mv.Name+": "+mv.C.Src)
}

func (tr *FnTr) abstractValue(x ssa.Value, why string) {
	tr.note(why)
	tr.env[x] = tr.freshVal(tr.vname(x), x.Type(), nil)
}

func (tr *FnTr) unop(x *ssa.UnOp) {
	v := tr.val(x.X)
	switch x.Op {
	case token.MUL: // load
		tr.nilCheck(v.L[0], x.Pos())
		tr.env[x] = tr.load(v.L[0], v.L[1], x.Type(), tr.vname(x))
	case token.NOT:
		tr.env[x] = Val{T: x.Type(), L: []*Term{Not(v.L[0])}}
	case token.SUB:
		if !isInteger(x.Type()) {
			tr.abstractValue(x, "float negation")
			return
		}
		tr.env[x] = tr.defVal(tr.vname(x), Val{T: x.Type(), L: []*Term{tr.arith(token.SUB, Int(0), v.L[0], basicOf(x.Type()), x.Pos())}})
	case token.XOR: // bitwise complement
		b := basicOf(x.Type())
		_, signed := intBits(b)
		var r *Term
		if signed {
			r = Sub(Int(-1), v.L[0])
		} else {
			_, hi := intRange(b)
			r = Sub(IntB(hi), v.L[0])
		}
		tr.env[x] = tr.defVal(tr.vname(x), Val{T: x.Type(), L: []*Term{r}})
	case token.ARROW:
		tr.abstractValue(x, "channel receive")
		tr.havocAll("chan receive")
	default:
		tr.unsupported("unary %s", x.Op)
	}
}

func (tr *FnTr) indexAddr(x *ssa.IndexAddr) {
	base := tr.val(x.X)
	idx := tr.val(x.Index).L[0]
	tr.noteIndex(idx)
	switch t := x.X.Type().Underlying().(type) {
	case *types.Slice:
		tr.check("index", And(Le(Int(0), idx), Lt(idx, base.L[2])), x.Pos())
		es := sizeOf(t.Elem())
		tr.env[x] = Val{T: x.Type(), L: []*Term{base.L[0], tr.vc.Def(tr.vname(x)+"_off", Add(base.L[1], Mul(idx, Int(int64(es)))))}}
	case *types.Pointer:
		arr := t.Elem().Underlying().(*types.Array)
		tr.nilCheck(base.L[0], x.Pos())
		tr.check("index", And(Le(Int(0), idx), Lt(idx, Int(arr.Len()))), x.Pos())
		es := sizeOf(arr.Elem())
		tr.env[x] = Val{T: x.Type(), L: []*Term{base.L[0], tr.vc.Def(tr.vname(x)+"_off", Add(base.L[1], Mul(idx, Int(int64(es)))))}}
	default:
		tr.unsupported("IndexAddr on %s", x.X.Type())
	}
}

func (tr *FnTr) index(x *ssa.Index) {
	base := tr.val(x.X)
	idx := tr.val(x.Index).L[0]
	tr.noteIndex(idx)
	switch t := x.X.Type().Underlying().(type) {
	case *types.Array:
		tr.check("index", And(Le(Int(0), idx), Lt(idx, Int(t.Len()))), x.Pos())
		es := sizeOf(t.Elem())
		n := int(t.Len())
		out := Val{T: x.Type(), L: make([]*Term, es)}
		if c := idx.IntConst(); c != nil && c.IsInt64() && c.Int64() >= 0 && c.Int64() < int64(n) {
			copy(out.L, base.L[int(c.Int64())*es:(int(c.Int64())+1)*es])
		} else {
			for k := 0; k < es; k++ {
				r := base.L[(n-1)*es+k]
				for i := n - 2; i >= 0; i-- {
					r = Ite(Eq(idx, Int(int64(i))), base.L[i*es+k], r)
				}
				out.L[k] = r
			}
			out = tr.defVal(tr.vname(x), out)
		}
		tr.env[x] = out
	case *types.Basic: // string
		tr.check("index", And(Le(Int(0), idx), Lt(idx, base.L[2])), x.Pos())
		c := Select(Select(tr.eng.strMem(), base.L[0]), Add(base.L[1], idx))
		v := Val{T: x.Type(), L: []*Term{tr.vc.Def(tr.vname(x), c)}}
		tr.assumeTyped(v, nil)
		tr.env[x] = v
	default:
		tr.unsupported("Index on %s", x.X.Type())
	}
}

func (tr *FnTr) lookup(x *ssa.Lookup) {
	if isString(x.X.Type()) {
		base := tr.val(x.X)
		idx := tr.val(x.Index).L[0]
		tr.check("index", And(Le(Int(0), idx), Lt(idx, base.L[2])), x.Pos())
		c := Select(Select(tr.eng.strMem(), base.L[0]), Add(base.L[1], idx))
		v := Val{T: x.Type(), L: []*Term{tr.vc.Def(tr.vname(x), c)}}
		tr.assumeTyped(v, nil)
		tr.env[x] = v
		return
	}
	// map lookup: result is a typed but otherwise unconstrained value
	tr.note("map lookup")
	tr.env[x] = tr.freshVal(tr.vname(x), x.Type(), tr.st.Alloc)
	if mt, ok := x.X.Type().Underlying().(*types.Map); ok {
		v := tr.env[x]
		n := sizeOf(mt.Elem())
		if x.CommaOk {
			tr.assumeMapVal(x.X, mt.Elem(), v.L[:n], v.L[n])
		} else if _, isPtr := mt.Elem().Underlying().(*types.Pointer); isPtr {
			tr.assumeMapVal(x.X, mt.Elem(), v.L[:n], Ne(v.L[0], Int(0)))
		}
	}
}

func (tr *FnTr) slice(x *ssa.Slice) {
	base := tr.val(x.X)
	var lo, hi, mx *Term
	if x.Low != nil {
		lo = tr.val(x.Low).L[0]
	} else {
		lo = Int(0)
	}
	switch t := x.X.Type().Underlying().(type) {
	case *types.Slice:
		ln, cp := base.L[2], base.L[3]
		if x.High != nil {
			hi = tr.val(x.High).L[0]
		} else {
			hi = ln
		}
		if x.Max != nil {
			mx = tr.val(x.Max).L[0]
		} else {
			mx = cp
		}
		tr.check("slice", And(Le(Int(0), lo), Le(lo, hi), Le(hi, mx), Le(mx, cp)), x.Pos())
		es := sizeOf(t.Elem())
		tr.env[x] = tr.defVal(tr.vname(x), Val{T: x.Type(), L: []*Term{base.L[0], Add(base.L[1], Mul(lo, Int(int64(es)))), Sub(hi, lo), Sub(mx, lo)}})
	case *types.Basic: // string
		ln := base.L[2]
		if x.High != nil {
			hi = tr.val(x.High).L[0]
		} else {
			hi = ln
		}
		tr.check("slice", And(Le(Int(0), lo), Le(lo, hi), Le(hi, ln)), x.Pos())
		tr.env[x] = tr.defVal(tr.vname(x), Val{T: x.Type(), L: []*Term{base.L[0], Add(base.L[1], lo), Sub(hi, lo)}})
	case *types.Pointer:
		arr := t.Elem().Underlying().(*types.Array)
		n := Int(arr.Len())
		if x.High != nil {
			hi = tr.val(x.High).L[0]
		} else {
			hi = n
		}
		if x.Max != nil {
			mx = tr.val(x.Max).L[0]
		} else {
			mx = n
		}
		tr.nilCheck(base.L[0], x.Pos())
		tr.check("slice", And(Le(Int(0), lo), Le(lo, hi), Le(hi, mx), Le(mx, n)), x.Pos())
		es := sizeOf(arr.Elem())
		tr.env[x] = tr.defVal(tr.vname(x), Val{T: x.Type(), L: []*Term{base.L[0], Add(base.L[1], Mul(lo, Int(int64(es)))), Sub(hi, lo), Sub(mx, lo)}})
	default:
		tr.unsupported("Slice on %s", x.X.Type())
	}
}

func (tr *FnTr) convert(x *ssa.Convert) {
	v := tr.val(x.X)
	from, to := x.X.Type(), x.Type()
	switch {
	case isInteger(from) && isInteger(to):
		fb, tb := basicOf(from), basicOf(to)
		flo, fhi := intRange(fb)
		tlo, thi := intRange(tb)
		r := v.L[0]
		if flo.Cmp(tlo) < 0 || fhi.Cmp(thi) > 0 {
			r = wrap(r, tb)
		}
		out := tr.defVal(tr.vname(x), Val{T: to, L: []*Term{r}})
		tr.copyBits(v.L[0], out.L[0], fb, tb)
		tr.env[x] = out
	case isString(from) && isByteSlice(to):
		// fresh object holding a copy of the string bytes
		obj := tr.newObject(tr.vname(x))
		na := tr.vc.Fresh(tr.vname(x)+"_bytes", SArr)
		j := Sym("j!q", SInt)
		src := Select(tr.eng.strMem(), v.L[0])
		tr.vc.Assume(Forall([]*Term{j}, Implies(And(Le(Int(0), j), Lt(j, v.L[2])), Eq(Select(na, j), Select(src, Add(v.L[1], j)))), Select(na, j)))
		tr.st.Mem = tr.vc.Def("mem", Store(tr.st.Mem, obj, na))
		tr.env[x] = Val{T: to, L: []*Term{obj, Int(0), v.L[2], v.L[2]}}
	case isByteSlice(from) && isString(to):
		// a fresh immutable string whose content equals the bytes now
		sid := tr.vc.Fresh(tr.vname(x)+"_sid", SInt)
		tr.vc.Assume(Lt(sid, Int(-1000000)))
		j := Sym("j!q", SInt)
		src := Select(tr.st.Mem, v.L[0])
		dst := Select(tr.eng.strMem(), sid)
		tr.vc.Assume(Forall([]*Term{j}, Implies(And(Le(Int(0), j), Lt(j, v.L[2])), Eq(Select(dst, j), Select(src, Add(v.L[1], j)))), Select(dst, j)))
		tr.env[x] = Val{T: to, L: []*Term{sid, Int(0), v.L[2]}}
	case isInteger(from) && isString(to):
		tr.abstractValue(x, "rune to string")
	default:
		tr.abstractValue(x, fmt.Sprintf("conversion %s -> %s", from, to))
	}
}

func isByteSlice(T types.Type) bool {
	s, ok := T.Underlying().(*types.Slice)
	if !ok {
		return false
	}
	b := basicOf(s.Elem())
	return b != nil && (b.Kind() == types.Uint8)
}

// ---------- arithmetic ----------

// kb: known-bits facts about non-negative terms: value < 2^hi and value ≡ 0 mod 2^tz.
type kb struct{ hi, tz uint }

func (tr *FnTr) kbOf(t *Term, b *types.Basic) kb {
	if c := t.IntConst(); c != nil && c.Sign() >= 0 {
		tz := uint(0)
		if c.Sign() == 0 {
			return kb{0, 64}
		}
		for c.Bit(int(tz)) == 0 {
			tz++
		}
		return kb{uint(c.BitLen()), tz}
	}
	if k, ok := tr.eng.bits[t.Key()]; ok {
		return k
	}
	if b != nil {
		bits, signed := intBits(b)
		if !signed {
			return kb{bits, 0}
		}
	}
	return kb{64, 0}
}

func (tr *FnTr) copyBits(from, to *Term, fb, tb *types.Basic) {
	fbits, fs := intBits(fb)
	tbits, _ := intBits(tb)
	if fs {
		// trailing zeros survive any width change of a two's complement value
		if k, ok := tr.eng.bits[from.Key()]; ok && k.tz > 0 {
			tr.eng.bits[to.Key()] = kb{64, k.tz}
		}
		return
	}
	k := tr.kbOf(from, fb)
	if k.hi > fbits {
		k.hi = fbits
	}
	if k.hi <= tbits {
		tr.eng.bits[to.Key()] = k
	} else {
		tr.eng.bits[to.Key()] = kb{tbits, k.tz}
	}
}

func (tr *FnTr) binop(op token.Token, x, y Val, T types.Type, p token.Pos) Val {
	out := func(t *Term) Val { return Val{T: T, L: []*Term{t}} }
	XT := x.T
	switch op {
	case token.EQL, token.NEQ:
		var r *Term
		switch {
		case isString(XT):
			r = tr.stringEq(x, y)
		case isFloat(XT):
			r = tr.vc.Fresh("feq", SBool)
		default:
			_, isPtr := XT.Underlying().(*types.Pointer)
			if isPtr && (isNilConstVal(x) || isNilConstVal(y)) {
				a := x
				if isNilConstVal(x) {
					a = y
				}
				r = Eq(a.L[0], Int(0))
			} else if _, isSlice := XT.Underlying().(*types.Slice); isSlice {
				// only comparison with nil is legal
				a := x
				if isNilConstVal(x) {
					a = y
				}
				r = Eq(a.L[0], Int(0))
			} else {
				var cs []*Term
				for i := range x.L {
					cs = append(cs, Eq(x.L[i], y.L[i]))
				}
				r = And(cs...)
			}
		}
		if op == token.NEQ {
			r = Not(r)
		}
		return out(r)
	}
	if isString(XT) {
		switch op {
		case token.ADD:
			tr.note("string concatenation")
			v := tr.freshVal("strcat", T, nil)
			tr.vc.Assume(Eq(v.L[2], Add(x.L[2], y.L[2])))
			return v
		default:
			tr.note("string comparison")
			return out(tr.vc.Fresh("strcmp", SBool))
		}
	}
	if isFloat(XT) {
		tr.note("floating point")
		if isBoolean(T) {
			return out(tr.vc.Fresh("fcmp", SBool))
		}
		return tr.freshVal("fop", T, nil)
	}
	if isBoolean(XT) {
		switch op {
		case token.AND, token.LAND:
			return out(And(x.L[0], y.L[0]))
		case token.OR, token.LOR:
			return out(Or(x.L[0], y.L[0]))
		}
	}
	a, b := x.L[0], y.L[0]
	switch op {
	case token.LSS:
		return out(Lt(a, b))
	case token.LEQ:
		return out(Le(a, b))
	case token.GTR:
		return out(Gt(a, b))
	case token.GEQ:
		return out(Ge(a, b))
	}
	bt := basicOf(T)
	if op == token.SHL || op == token.SHR {
		return out(tr.shift(op, a, b, bt, basicOf(y.T), p))
	}
	return out(tr.arith(op, a, b, bt, p))
}

func isNilConstVal(v Val) bool {
	for _, l := range v.L {
		if c := l.IntConst(); c == nil || c.Sign() != 0 {
			return false
		}
	}
	return true
}

func (tr *FnTr) stringEq(x, y Val) *Term {
	// equal headers => equal; otherwise an uninterpreted verdict that implies equal length
	same := And(Eq(x.L[0], y.L[0]), Eq(x.L[1], y.L[1]), Eq(x.L[2], y.L[2]))
	if same.IsTrue() {
		return tTrue
	}
	tr.note("string equality (uninterpreted)")
	u := tr.vc.Fresh("streq", SBool)
	tr.vc.Assume(Implies(same, u))
	tr.vc.Assume(Implies(u, Eq(x.L[2], y.L[2])))
	return u
}

// result of an arithmetic operator on type b, with wrap-around or overflow obligation.
func (tr *FnTr) finish(raw *Term, b *types.Basic, p token.Pos, canOverflow bool) *Term {
	if !canOverflow {
		return raw
	}
	if tr.top.refute && !tr.top.refuteWrap {
		// bounded search, first pass: only executions without integer wrap-around
		tr.st.Reach = tr.vc.Def("reach", And(tr.st.Reach, inRange(raw, b)))
		return raw
	}
	if tr.top.ct != nil && tr.top.ct.NoOverflow {
		tr.vc.Oblige(tr.prefix+"nooverflow", "", Implies(tr.st.Reach, inRange(raw, b)), tr.pos(p))
		tr.st.Reach = tr.vc.Def("reach", And(tr.st.Reach, inRange(raw, b)))
		return raw
	}
	return wrap(raw, b)
}

func (tr *FnTr) arith(op token.Token, a, b *Term, bt *types.Basic, p token.Pos) *Term {
	_, signed := intBits(bt)
	bits, _ := intBits(bt)
	switch op {
	case token.ADD:
		return tr.finish(Add(a, b), bt, p, true)
	case token.SUB:
		if z := a.IntConst(); z != nil && z.Sign() == 0 && !signed {
			// -x for x in {0,1}: 0 or all ones
			if k := tr.kbOf(b, bt); k.hi <= 1 {
				_, hi := intRange(bt)
				r := Ite(Eq(b, Int(0)), Int(0), IntB(hi))
				tr.eng.negBit[r.Key()] = b
				return r
			}
		}
		return tr.finish(Sub(a, b), bt, p, true)
	case token.MUL:
		return tr.finish(tr.mulTerm(a, b), bt, p, true)
	case token.QUO, token.REM:
		tr.check("div", Ne(b, Int(0)), p)
		var q *Term
		if !signed {
			q = Div(a, b)
		} else {
			// truncated division from Euclidean div
			q = Ite(Ge(a, Int(0)), Div(a, b), Neg(Div(Neg(a), b)))
		}
		if op == token.QUO {
			if signed {
				return wrap(q, bt) // minInt / -1
			}
			return q
		}
		if !signed {
			return Mod(a, b)
		}
		return Sub(a, Mul(q, b))
	case token.AND:
		return tr.bitAnd(a, b, bt)
	case token.AND_NOT:
		if c := b.IntConst(); c != nil && !signed {
			_, hi := intRange(bt)
			return tr.bitAnd(a, IntB(new(big.Int).AndNot(hi, c)), bt)
		}
		return tr.bitUF("bandnot", a, b, bt)
	case token.OR:
		ka, kbb := tr.kbOf(a, bt), tr.kbOf(b, bt)
		// x|y == x+y when the set bits cannot overlap; for a signed x this still holds if y
		// is a non-negative value that fits below x's trailing zeros
		if (!signed && (ka.hi <= kbb.tz || kbb.hi <= ka.tz)) || (signed && ((kbb.hi <= ka.tz && kbb.hi < 64) || (ka.hi <= kbb.tz && ka.hi < 64))) {
			r := Add(a, b)
			hi := ka.hi
			if kbb.hi > hi {
				hi = kbb.hi
			}
			tz := ka.tz
			if kbb.tz < tz {
				tz = kbb.tz
			}
			if hi > bits {
				hi = bits
			}
			tr.eng.bits[r.Key()] = kb{hi, tz}
			return r
		}
		if x, y := a.IntConst(), b.IntConst(); x != nil && y != nil && x.Sign() >= 0 && y.Sign() >= 0 {
			return IntB(new(big.Int).Or(x, y))
		}
		r := tr.bitUF("bor", a, b, bt)
		if !signed {
			tr.vc.Assume(And(Ge(r, a), Ge(r, b), Le(r, Add(a, b))))
		}
		return r
	case token.XOR:
		if x, y := a.IntConst(), b.IntConst(); x != nil && y != nil && x.Sign() >= 0 && y.Sign() >= 0 {
			return IntB(new(big.Int).Xor(x, y))
		}
		r := tr.bitUF("bxor", a, b, bt)
		if !signed {
			tr.vc.Assume(Le(r, Add(a, b)))
		}
		return r
	}
	tr.unsupported("binary operator %s", op)
	return nil
}

// mulTerm multiplies; a product of two non-constant terms stays a nonlinear SMT term
// (monomial abstraction is applied by the field tactic, not here).
func (tr *FnTr) mulTerm(a, b *Term) *Term { return Mul(a, b) }

func (tr *FnTr) bitUF(name string, a, b *Term, bt *types.Basic) *Term {
	tr.vc.DeclareUF(name, []Sort{SInt, SInt}, SInt)
	r := tr.vc.Def(name+"_r", App(name, SInt, a, b))
	tr.vc.Assume(inRange(r, bt))
	return r
}

// bitAnd: x & mask. Constant masks made of one run of ones are exact (div/mod).
func (tr *FnTr) bitAnd(a, b *Term, bt *types.Basic) *Term {
	bits, signed := intBits(bt)
	if a.IntConst() != nil && b.IntConst() == nil {
		a, b = b, a
	}
	if x, y := a.IntConst(), b.IntConst(); x != nil && y != nil && x.Sign() >= 0 && y.Sign() >= 0 {
		return IntB(new(big.Int).And(x, y))
	}
	if c := b.IntConst(); c != nil && c.Sign() >= 0 {
		if z, ok := tr.eng.negBit[a.Key()]; ok {
			// (0 or all-ones) & C
			return Ite(Eq(z, Int(0)), Int(0), IntB(c))
		}
	}
	if c := b.IntConst(); c != nil {
		m := new(big.Int).Set(c)
		if m.Sign() < 0 { // two's complement view
			m.Add(m, new(big.Int).Lsh(big.NewInt(1), bits))
		}
		if m.Sign() == 0 {
			return Int(0)
		}
		// decompose into runs of ones
		var parts []*Term
		i := 0
		n := m.BitLen()
		runs := 0
		for i < n {
			if m.Bit(i) == 0 {
				i++
				continue
			}
			j := i
			for j < n && m.Bit(j) == 1 {
				j++
			}
			runs++
			// bits [i,j)
			var part *Term
			if signed && uint(j) == bits {
				// includes the sign bit: use the unsigned image of a
				ua := Mod(a, Pow2(bits))
				part = Mul(Div(ua, Pow2(uint(i))), Pow2(uint(i)))
			} else {
				part = Mul(Mod(Div(a, Pow2(uint(i))), Pow2(uint(j-i))), Pow2(uint(i)))
			}
			parts = append(parts, part)
			i = j
		}
		if runs <= 6 {
			r := Add(parts...)
			if signed && uint(n) == bits {
				r = wrap(r, bt)
			}
			k := kb{uint(n), 0}
			for m.Bit(int(k.tz)) == 0 {
				k.tz++
			}
			tr.eng.bits[r.Key()] = k
			return r
		}
	}
	r := tr.bitUF("band", a, b, bt)
	if !signed {
		tr.vc.Assume(And(Le(r, a), Le(r, b), Implies(Eq(a, b), Eq(r, a))))
	}
	return r
}

func (tr *FnTr) shift(op token.Token, a, s *Term, bt, st *types.Basic, p token.Pos) *Term {
	bits, signed := intBits(bt)
	if st != nil {
		if _, ssigned := intBits(st); ssigned && s.IntConst() == nil {
			tr.check("shift", Ge(s, Int(0)), p)
		}
	}
	if c := s.IntConst(); c != nil {
		if c.Sign() < 0 {
			tr.check("shift", tFalse, p)
			return Int(0)
		}
		if !c.IsUint64() || c.Uint64() >= uint64(bits) {
			if op == token.SHR && signed {
				return Ite(Lt(a, Int(0)), Int(-1), Int(0))
			}
			return Int(0)
		}
		k := uint(c.Uint64())
		if op == token.SHL {
			ka := tr.kbOf(a, bt)
			r := Mul(a, Pow2(k))
			if !signed && ka.hi+k <= bits {
				tr.eng.bits[r.Key()] = kb{ka.hi + k, ka.tz + k}
				return r
			}
			r2 := tr.finish(r, bt, p, true)
			if !signed {
				tr.eng.bits[r2.Key()] = kb{bits, k}
			} else {
				tr.eng.bits[r2.Key()] = kb{64, k}
			}
			return r2
		}
		r := Div(a, Pow2(k))
		if !signed {
			ka := tr.kbOf(a, bt)
			if ka.hi > k {
				tr.eng.bits[r.Key()] = kb{ka.hi - k, 0}
			} else {
				tr.eng.bits[r.Key()] = kb{0, 64}
			}
		}
		return r
	}
	// variable shift count: 2^s as an ite chain
	pw := Int(0)
	_ = pw
	var chain *Term = Pow2(bits) // unused default
	for k := int(bits) - 1; k >= 0; k-- {
		chain = Ite(Eq(s, Int(int64(k))), Pow2(uint(k)), chain)
	}
	p2 := tr.vc.Def("pow2s", chain)
	big := Ge(s, Int(int64(bits)))
	if op == token.SHL {
		return Ite(big, Int(0), wrap(Mul(a, p2), bt))
	}
	if signed {
		return Ite(big, Ite(Lt(a, Int(0)), Int(-1), Int(0)), Div(a, p2))
	}
	return Ite(big, Int(0), Div(a, p2))
}
