package main

// Models of byte readers (bytes.Reader, bytes.Buffer used as a reader, io.Reader values):
// a reader is an object whose only visible state is the ghost count of bytes that remain
// (ghost cell -1); a read overwrites the destination buffer with unknown bytes and lowers
// the count by the number of bytes delivered. The count of an io.Reader of unknown origin
// is an arbitrary natural number, i.e. readers are assumed to be finite streams (true for
// the bytes.Reader instances the verified parsers are handed; listed as an assumption).

import (
	"go/types"
	"strings"

	"golang.org/x/tools/go/ssa"
)

const algReader = 9

const readerModelNote = "byte readers (bytes.Reader, bytes.Buffer.Read*, io.Reader, io.ReadFull, binary.Read, rand.Read): destination bytes unknown, ghost count of remaining bytes decreases by the bytes delivered; readers are finite streams"

// havocCells overwrites cells [lo,hi) of obj with unknown values.
func (tr *FnTr) havocCells(obj, lo, hi *Term, tag string) {
	tr.writeCheck(obj, lo, hi)
	tr.st.Mem = tr.havocMem(tr.st.Mem, tr.st.Alloc, []cellRange{{Obj: obj, Lo: lo, Hi: hi}}, false, tag)
}

func (tr *FnTr) readerRem(id *Term) *Term {
	rem := tr.vc.Def("rd_rem", tr.ghostLen(id))
	tr.vc.Assume(Le(Int(0), rem))
	return rem
}

// readerSetRem: the remaining count becomes rem; the byte content (of a bytes.Buffer that
// is also written to) is not tracked across reads.
func (tr *FnTr) readerSetRem(id, rem *Term) {
	arr := tr.ghostArr(id)
	na := tr.vc.Fresh("rd_arr", SArr)
	tr.vc.Assume(Eq(Select(na, Int(-3)), Select(arr, Int(-3))))
	tr.st.Ghost = tr.vc.Def("ghost", Store(tr.st.Ghost, id, Store(na, Int(-1), rem)))
}

// readerRead: Read(buf). exact: bytes.Reader/bytes.Buffer semantics (n = min(len, rem),
// error exactly when nothing could be delivered into a non-empty buffer); otherwise the
// io.Reader contract (0 <= n <= len, an empty delivery into a non-empty buffer reports an error).
func (tr *FnTr) readerRead(id *Term, buf Val, exact bool) (n, err *Term) {
	tr.usedModel(readerModelNote)
	rem := tr.readerRem(id)
	ln := buf.L[2]
	n = tr.vc.Fresh("rd_n", SInt)
	err = tr.vc.Fresh("rd_err", SInt)
	tr.vc.Assume(And(Le(Int(0), n), Le(n, ln), Le(n, rem), Le(Int(0), err)))
	if exact {
		tr.vc.Assume(Eq(n, Ite(Lt(ln, rem), ln, rem)))
		tr.vc.Assume(Eq(Eq(err, Int(0)), Or(Lt(Int(0), n), Eq(ln, Int(0)))))
	} else {
		tr.vc.Assume(Implies(And(Eq(n, Int(0)), Lt(Int(0), ln)), Lt(Int(0), err)))
	}
	tr.havocCells(buf.L[0], buf.L[1], Add(buf.L[1], ln), "rd")
	tr.readerSetRem(id, Sub(rem, n))
	return
}

// readerFull: io.ReadFull(r, buf) and binary.Read of cnt bytes: success delivers exactly cnt bytes.
func (tr *FnTr) readerFull(id *Term, cnt *Term) (n, err *Term) {
	tr.usedModel(readerModelNote)
	rem := tr.readerRem(id)
	n = tr.vc.Fresh("rd_n", SInt)
	err = tr.vc.Fresh("rd_err", SInt)
	tr.vc.Assume(And(Le(Int(0), n), Le(n, cnt), Le(n, rem), Le(Int(0), err)))
	tr.vc.Assume(Eq(Eq(err, Int(0)), Eq(n, cnt)))
	tr.readerSetRem(id, Sub(rem, n))
	return
}

func init() {
	mk := func(name string, f func(tr *FnTr, x ssa.Value, a []Val, cc *ssa.CallCommon) Val) {
		libModels[name] = func(tr *FnTr, x ssa.Value, args []Val, cc *ssa.CallCommon) Val {
			tr.usedModel(readerModelNote)
			return f(tr, x, args, cc)
		}
		libEffects[name] = [2]bool{true, true}
	}
	mk("bytes.NewReader", func(tr *FnTr, x ssa.Value, a []Val, cc *ssa.CallCommon) Val {
		id := tr.newObject("reader")
		tr.ghostNew(id, Int(algReader))
		tr.readerSetRem(id, a[0].L[2])
		return Val{L: []*Term{id, Int(0)}}
	})
	mk("bytes.NewBuffer", func(tr *FnTr, x ssa.Value, a []Val, cc *ssa.CallCommon) Val {
		// the buffer starts with the bytes of the slice (content kept only as a length)
		id := tr.newObject("buffer")
		tr.ghostNew(id, Int(algBuffer))
		na := tr.vc.Fresh("buf0", SArr)
		tr.vc.Assume(Eq(Select(na, Int(-1)), a[0].L[2]))
		tr.st.Ghost = tr.vc.Def("ghost", Store(tr.st.Ghost, id, na))
		return Val{L: []*Term{id, Int(0)}}
	})
	for _, recv := range []string{"bytes.(*Reader).", "bytes.(*Buffer)."} {
		mk(recv+"Read", func(tr *FnTr, x ssa.Value, a []Val, cc *ssa.CallCommon) Val {
			tr.check("nil", Ne(a[0].L[0], Int(0)), posOf(x))
			n, err := tr.readerRead(a[0].L[0], a[1], true)
			return Val{L: []*Term{n, err}}
		})
		mk(recv+"ReadByte", func(tr *FnTr, x ssa.Value, a []Val, cc *ssa.CallCommon) Val {
			tr.check("nil", Ne(a[0].L[0], Int(0)), posOf(x))
			n, err := tr.readerFull(a[0].L[0], Int(1))
			_ = n
			b := tr.vc.Fresh("rd_byte", SInt)
			tr.vc.Assume(And(Le(Int(0), b), Le(b, Int(255))))
			return Val{L: []*Term{b, err}}
		})
	}
	mk("bytes.(*Reader).Len", func(tr *FnTr, x ssa.Value, a []Val, cc *ssa.CallCommon) Val {
		return Val{L: []*Term{tr.readerRem(a[0].L[0])}}
	})
	mk("io.ReadFull", func(tr *FnTr, x ssa.Value, a []Val, cc *ssa.CallCommon) Val {
		id := a[0].L[0]
		buf := a[1]
		n, err := tr.readerFull(id, buf.L[2])
		tr.havocCells(buf.L[0], buf.L[1], Add(buf.L[1], buf.L[2]), "rd")
		return Val{L: []*Term{n, err}}
	})
	// sync/atomic typed values: a load yields an unknown value, the other operations also
	// overwrite the atomic cell; nothing else is touched
	for _, ty := range []string{"Bool", "Int32", "Int64", "Uint32", "Uint64", "Uintptr"} {
		for _, op := range []string{"Store", "Add", "Swap", "CompareAndSwap", "And", "Or"} {
			name := "sync/atomic.(*" + ty + ")." + op
			libModels[name] = func(tr *FnTr, x ssa.Value, a []Val, cc *ssa.CallCommon) Val {
				tr.usedModel("sync/atomic typed values (the operation overwrites the atomic cell with an unknown value, result unknown)")
				tr.check("nil", Ne(a[0].L[0], Int(0)), posOf(x))
				if pt, ok := a[0].T.Underlying().(*types.Pointer); ok {
					tr.havocCells(a[0].L[0], a[0].L[1], Add(a[0].L[1], Int(int64(sizeOf(pt.Elem())))), "atomic")
				}
				if x == nil || x.Type() == nil {
					return Val{}
				}
				if tp, ok := x.Type().(*types.Tuple); ok && tp.Len() == 0 {
					return Val{}
				}
				return tr.freshVal(tr.vname(x), x.Type(), nil)
			}
			libEffects[name] = [2]bool{true, false}
		}
	}
	for _, ty := range []string{"Int32", "Int64", "Uint32", "Uint64", "Uintptr"} {
		ld := "sync/atomic.Load" + ty
		libModels[ld] = func(tr *FnTr, x ssa.Value, a []Val, cc *ssa.CallCommon) Val {
			tr.usedModel("sync/atomic functions (a load yields an unknown value; store/add overwrite the addressed cell)")
			tr.check("nil", Ne(a[0].L[0], Int(0)), posOf(x))
			return tr.freshVal(tr.vname(x), x.Type(), nil)
		}
		libEffects[ld] = [2]bool{false, false}
		for _, op := range []string{"Store", "Add", "Swap", "CompareAndSwap"} {
			name := "sync/atomic." + op + ty
			libModels[name] = func(tr *FnTr, x ssa.Value, a []Val, cc *ssa.CallCommon) Val {
				tr.usedModel("sync/atomic functions (a load yields an unknown value; store/add overwrite the addressed cell)")
				tr.check("nil", Ne(a[0].L[0], Int(0)), posOf(x))
				tr.havocCells(a[0].L[0], a[0].L[1], Add(a[0].L[1], Int(1)), "atomic")
				if x == nil || x.Type() == nil {
					return Val{}
				}
				if tp, ok := x.Type().(*types.Tuple); ok && tp.Len() == 0 {
					return Val{}
				}
				return tr.freshVal(tr.vname(x), x.Type(), nil)
			}
			libEffects[name] = [2]bool{true, false}
		}
	}
	libModels["sort.Ints"] = func(tr *FnTr, x ssa.Value, a []Val, cc *ssa.CallCommon) Val {
		tr.usedModel("sort.Ints (the elements of the slice are overwritten with values in ascending order; nothing else is written; that the result is a permutation of the input is not modelled)")
		buf := a[0]
		lo, hi := buf.L[1], Add(buf.L[1], buf.L[2])
		tr.havocCells(buf.L[0], lo, hi, "sort")
		arr := Select(tr.st.Mem, buf.L[0])
		k := Sym("k!q", SInt)
		tr.vc.Assume(Implies(tr.st.Reach, Forall([]*Term{k}, Implies(And(Le(lo, k), Lt(Add(k, Int(1)), hi)),
			Le(Select(arr, k), Select(arr, Add(k, Int(1))))), Select(arr, k))))
		return Val{}
	}
	libEffects["sort.Ints"] = [2]bool{true, false}
	mk("crypto/rand.Read", func(tr *FnTr, x ssa.Value, a []Val, cc *ssa.CallCommon) Val {
		buf := a[0]
		tr.havocCells(buf.L[0], buf.L[1], Add(buf.L[1], buf.L[2]), "rnd")
		return Val{L: []*Term{buf.L[2], Int(0)}}
	})
}

// readerInvoke models Read/ReadByte called through io.Reader / io.ByteReader interfaces.
func (tr *FnTr) readerInvoke(x *ssa.Call, cc *ssa.CallCommon) (Val, bool) {
	recvT := cc.Value.Type().String()
	if !strings.Contains(recvT, "io.Reader") && !strings.Contains(recvT, "io.ByteReader") {
		return Val{}, false
	}
	id := tr.val(cc.Value).L[0]
	args := tr.args(cc)
	switch cc.Method.Name() {
	case "Read":
		tr.check("nil", Ne(id, Int(0)), x.Pos())
		n, err := tr.readerRead(id, args[0], false)
		return Val{L: []*Term{n, err}}, true
	case "ReadByte":
		tr.check("nil", Ne(id, Int(0)), x.Pos())
		_, err := tr.readerFull(id, Int(1))
		b := tr.vc.Fresh("rd_byte", SInt)
		tr.vc.Assume(And(Le(Int(0), b), Le(b, Int(255))))
		return Val{L: []*Term{b, err}}, true
	}
	return Val{}, false
}

// binaryRead models encoding/binary.Read(r, order, &x) for a pointer to a fixed-size value.
func (tr *FnTr) binaryRead(x ssa.Value, cc *ssa.CallCommon) (Val, bool) {
	if len(cc.Args) != 3 {
		return Val{}, false
	}
	mi, ok := cc.Args[2].(*ssa.MakeInterface)
	if !ok {
		return Val{}, false
	}
	pt, ok := mi.X.Type().Underlying().(*types.Pointer)
	if !ok {
		return Val{}, false
	}
	bytes := fixedByteSize(pt.Elem())
	if bytes < 0 {
		return Val{}, false
	}
	id := tr.val(cc.Args[0]).L[0]
	p := tr.val(mi.X)
	_, err := tr.readerFull(id, Int(int64(bytes)))
	tr.check("nil", Ne(p.L[0], Int(0)), posOf(x))
	tr.havocCells(p.L[0], p.L[1], Add(p.L[1], Int(int64(sizeOf(pt.Elem())))), "brd")
	return Val{L: []*Term{err}}, true
}

// fixedByteSize: encoded size of a fixed-size value (integers, arrays and structs of them), -1 otherwise.
func fixedByteSize(T types.Type) int {
	switch t := T.Underlying().(type) {
	case *types.Basic:
		if t.Info()&types.IsInteger != 0 {
			bits, _ := intBits(t)
			if t.Kind() == types.Int || t.Kind() == types.Uint || t.Kind() == types.Uintptr {
				return -1
			}
			return int(bits / 8)
		}
		if t.Info()&types.IsBoolean != 0 {
			return 1
		}
	case *types.Array:
		e := fixedByteSize(t.Elem())
		if e < 0 {
			return -1
		}
		return e * int(t.Len())
	case *types.Struct:
		n := 0
		for i := 0; i < t.NumFields(); i++ {
			e := fixedByteSize(t.Field(i).Type())
			if e < 0 {
				return -1
			}
			n += e
		}
		return n
	}
	return -1
}
