package main

// Engine: loads packages from /repo's working tree (tag verif), builds SSA, reads contract
// files, and generates VCs for functions under contract and for lemmas.

import (
	"time"
	"fmt"
	"go/constant"
	"go/token"
	"go/types"
	"math/big"
	"os"
	"path/filepath"
	"sort"
	"strings"

	"golang.org/x/tools/go/packages"
	"golang.org/x/tools/go/ssa"
	"golang.org/x/tools/go/ssa/ssautil"
)

const modulePath = "github.com/piotrnar/gocoin"

type Eng struct {
	repo      string
	fset      *token.FileSet
	prog      *ssa.Program
	pkgs      map[string]*ssa.Package // by import path
	tpkgs     map[string]*packages.Package
	contracts map[string]*FuncContract // key: pkgpath.Name / pkgpath.(*T).Name
	cfiles    []*ContractFile
	specs     map[string]*SpecFunc
	ufs       map[string]*UFDecl
	lemmas    []*Lemma
	globals_  []GlobalInv
	mapvals   map[string]MapVal
	immutables map[string]bool // pkgpath.Name of package variables declared immutable
	globals   map[*ssa.Global]int64
	funcs     map[*ssa.Function]int64
	strings   map[string]int64
	strDone   map[*VC]map[int64]bool
	bits      map[string]kb
	negBit    map[string]*Term
	effects   map[*ssa.Function][2]bool
	effBusy   map[*ssa.Function]bool
	qctr      int
	loadSecs  float64
}

func NewEng(repo string) *Eng {
	return &Eng{repo: repo, pkgs: map[string]*ssa.Package{}, tpkgs: map[string]*packages.Package{},
		contracts: map[string]*FuncContract{}, specs: map[string]*SpecFunc{}, ufs: map[string]*UFDecl{},
		globals: map[*ssa.Global]int64{}, funcs: map[*ssa.Function]int64{}, strings: map[string]int64{},
		strDone: map[*VC]map[int64]bool{}, bits: map[string]kb{}, negBit: map[string]*Term{}, effects: map[*ssa.Function][2]bool{}, effBusy: map[*ssa.Function]bool{}}
}

// Load type-checks the given package patterns (relative to the repo) with tag verif.
func (e *Eng) Load(patterns []string) error {
	cfg := &packages.Config{
		Mode:       packages.LoadAllSyntax,
		Dir:        e.repo,
		BuildFlags: []string{"-tags=verif"},
		Env:        append(os.Environ(), "GOFLAGS=-mod=mod", "GOPROXY=off", "GOSUMDB=off", "GOTOOLCHAIN=local"),
	}
	pkgs, err := packages.Load(cfg, patterns...)
	if err != nil {
		return err
	}
	var errs []string
	packages.Visit(pkgs, nil, func(p *packages.Package) {
		for _, er := range p.Errors {
			errs = append(errs, er.Error())
		}
	})
	if len(errs) > 0 {
		return fmt.Errorf("package errors:\n%s", strings.Join(errs, "\n"))
	}
	prog, spkgs := ssautil.AllPackages(pkgs, ssa.GlobalDebug|ssa.BareInits)
	prog.Build()
	e.prog = prog
	e.fset = prog.Fset
	for i, p := range pkgs {
		if spkgs[i] != nil {
			e.pkgs[p.PkgPath] = spkgs[i]
			e.tpkgs[p.PkgPath] = p
		}
	}
	for _, sp := range prog.AllPackages() {
		if _, ok := e.pkgs[sp.Pkg.Path()]; !ok {
			e.pkgs[sp.Pkg.Path()] = sp
		}
	}
	// contract files: zz_verif_contracts*.go in every loaded package of the module
	packages.Visit(pkgs, nil, func(p *packages.Package) {
		if !strings.HasPrefix(p.PkgPath, modulePath) {
			return
		}
		for _, f := range p.GoFiles {
			if strings.HasPrefix(filepath.Base(f), "zz_verif_contracts") {
				cf, err := parseContractFile(f, p.PkgPath)
				if err != nil {
					errs = append(errs, err.Error())
					continue
				}
				e.cfiles = append(e.cfiles, cf)
				for _, fc := range cf.Funcs {
					e.contracts[p.PkgPath+"."+fc.Name] = fc
				}
				for _, s := range cf.Specs {
					if e.specs[s.Name] != nil {
						errs = append(errs, fmt.Sprintf("%s: duplicate spec %s", s.Pos, s.Name))
					}
					e.specs[s.Name] = s
				}
				for _, u := range cf.UFs {
					e.ufs[u.Name] = u
				}
				e.lemmas = append(e.lemmas, cf.Lemmas...)
				e.globals_ = append(e.globals_, cf.Globals...)
				for _, im := range cf.Immutables {
					if e.immutables == nil {
						e.immutables = map[string]bool{}
					}
					e.immutables[p.PkgPath+"."+im] = true
				}
				for _, mv := range cf.MapVals {
					if e.mapvals == nil {
						e.mapvals = map[string]MapVal{}
					}
					e.mapvals[p.PkgPath+"."+mv.Name] = mv
				}
			}
		}
	})
	if len(errs) > 0 {
		return fmt.Errorf("contract errors:\n%s", strings.Join(errs, "\n"))
	}
	return nil
}

func (e *Eng) contractFor(name string) *FuncContract {
	if c := e.contracts[name]; c != nil {
		return c
	}
	// an instance of a generic function answers to the contract of the generic function
	// (only assumed frame contracts make sense there: the body is not verified per instance)
	if k := strings.Index(name, "["); k > 0 && strings.HasSuffix(name, "]") {
		if c := e.contracts[name[:k]]; c != nil && c.Assumed {
			return c
		}
	}
	return nil
}

// findFunc resolves a contract's function name to its SSA function.
func (e *Eng) findFunc(fc *FuncContract) *ssa.Function {
	sp := e.pkgs[fc.Pkg]
	if sp == nil {
		return nil
	}
	name := fc.Name
	if strings.HasPrefix(name, "(") {
		k := strings.Index(name, ")")
		recv, meth := name[1:k], name[k+2:]
		ptr := strings.HasPrefix(recv, "*")
		recv = strings.TrimPrefix(recv, "*")
		tn, ok := sp.Members[recv].(*ssa.Type)
		if !ok {
			return nil
		}
		var T types.Type = tn.Type()
		if ptr {
			T = types.NewPointer(T)
		}
		ms := e.prog.MethodSets.MethodSet(T)
		for i := 0; i < ms.Len(); i++ {
			if ms.At(i).Obj().Name() == meth {
				return e.prog.MethodValue(ms.At(i))
			}
		}
		return nil
	}
	if f, ok := sp.Members[name].(*ssa.Function); ok {
		return f
	}
	return nil
}

func (e *Eng) globalID(g *ssa.Global) int64 {
	if id, ok := e.globals[g]; ok {
		return id
	}
	id := int64(1000 + len(e.globals))
	e.globals[g] = id
	return id
}

const firstDynObj = 1000000 // objects allocated at run time have ids >= this

func (e *Eng) funcID(f *ssa.Function) int64 {
	if id, ok := e.funcs[f]; ok {
		return id
	}
	id := int64(1 + len(e.funcs))
	e.funcs[f] = id
	return id
}

func (e *Eng) stringID(s string) int64 {
	if id, ok := e.strings[s]; ok {
		return id
	}
	id := int64(-1 - len(e.strings))
	e.strings[s] = id
	return id
}

var strMemSym = Sym("STR", SMem)

func (e *Eng) strMem() *Term { return strMemSym }

// assumeString pins the bytes of a string constant in the immutable string store.
func (e *Eng) assumeString(vc *VC, id int64, s string) {
	m := e.strDone[vc]
	if m == nil {
		m = map[int64]bool{}
		e.strDone[vc] = m
	}
	if m[id] {
		return
	}
	m[id] = true
	if len(s) > 512 {
		return
	}
	arr := Select(strMemSym, Int(id))
	var cs []*Term
	for i := 0; i < len(s); i++ {
		cs = append(cs, Eq(Select(arr, Int(int64(i))), Int(int64(s[i]))))
	}
	vc.Assume(And(cs...))
}

// constant resolves a package-level constant visible from fn (used in contracts).
func (e *Eng) constant(fn *ssa.Function, name string) (*big.Int, bool) {
	if fn == nil || fn.Pkg == nil {
		return nil, false
	}
	return e.constantIn(fn.Pkg, name)
}

func (e *Eng) constantIn(pkg *ssa.Package, name string) (*big.Int, bool) {
	if pkg == nil {
		return nil, false
	}
	obj := pkg.Pkg.Scope().Lookup(name)
	c, ok := obj.(*types.Const)
	if !ok {
		return nil, false
	}
	v := c.Val()
	if v.Kind() != constant.Int {
		v = constant.ToInt(v)
		if v.Kind() != constant.Int {
			return nil, false
		}
	}
	bi, ok := new(big.Int).SetString(v.ExactString(), 10)
	return bi, ok
}

// funcEffects: may f write memory visible to the caller / allocate heap objects?
func (e *Eng) funcEffects(f *ssa.Function) (writes, allocs bool) {
	if r, ok := e.effects[f]; ok {
		return r[0], r[1]
	}
	if e.effBusy[f] {
		return true, true
	}
	if len(f.Blocks) == 0 || f.Pkg == nil || !strings.HasPrefix(f.Pkg.Pkg.Path(), modulePath) {
		n := calleeName(f)
		if ef, ok := libEffects[n]; ok {
			return ef[0], ef[1]
		}
		return true, true
	}
	e.effBusy[f] = true
	defer delete(e.effBusy, f)
	for _, b := range f.Blocks {
		for _, in := range b.Instrs {
			switch x := in.(type) {
			case *ssa.Store:
				// stores into the function's own non-escaping locals are invisible
				if a, ok := rootAlloc(x.Addr); ok && !a.Heap {
					continue
				}
				writes = true
			case *ssa.MapUpdate, *ssa.Send, *ssa.Go, *ssa.Select:
				writes, allocs = true, true
			case *ssa.Alloc:
				if x.Heap {
					allocs = true
				}
			case *ssa.MakeSlice, *ssa.MakeMap, *ssa.MakeChan, *ssa.MakeClosure, *ssa.MakeInterface:
				allocs = true
			case *ssa.Convert:
				if _, ok := x.Type().Underlying().(*types.Slice); ok {
					allocs = true
				}
				if isString(x.Type()) && !isString(x.X.Type()) {
					allocs = true
				}
			case *ssa.BinOp:
				if isString(x.Type()) {
					allocs = true
				}
			case *ssa.Call, *ssa.Defer:
				cc := in.(ssa.CallInstruction).Common()
				if cc.IsInvoke() {
					writes, allocs = true, true
					continue
				}
				switch g := cc.Value.(type) {
				case *ssa.Builtin:
					switch g.Name() {
					case "len", "cap", "print", "println", "min", "max", "recover":
					case "copy":
						writes = true
					default:
						writes, allocs = true, true
					}
				case *ssa.Function:
					if ct := e.contractFor(calleeName(g)); ct != nil && ct.Pure {
						continue
					}
					w, a := e.funcEffects(g)
					writes = writes || w
					allocs = allocs || a
				case *ssa.MakeClosure:
					w, a := e.funcEffects(g.Fn.(*ssa.Function))
					writes = writes || w
					allocs = allocs || a
				default:
					writes, allocs = true, true
				}
			}
		}
	}
	e.effects[f] = [2]bool{writes, allocs}
	return
}

func rootAlloc(v ssa.Value) (*ssa.Alloc, bool) {
	for {
		switch x := v.(type) {
		case *ssa.Alloc:
			return x, true
		case *ssa.FieldAddr:
			v = x.X
		case *ssa.IndexAddr:
			if _, ok := x.X.Type().Underlying().(*types.Pointer); ok {
				v = x.X
			} else {
				return nil, false
			}
		default:
			return nil, false
		}
	}
}

// autoInline: small loop-free leaf functions of the module without a contract.
func (e *Eng) autoInline(f *ssa.Function) bool {
	if f.Pkg == nil || !strings.HasPrefix(f.Pkg.Pkg.Path(), modulePath) {
		return false
	}
	if len(f.Blocks) == 0 || len(f.Blocks) > 12 || f.Recover != nil {
		return false
	}
	n := 0
	for _, b := range f.Blocks {
		for _, s := range b.Succs {
			if s.Dominates(b) {
				return false // loop
			}
		}
		for _, in := range b.Instrs {
			n++
			switch x := in.(type) {
			case *ssa.Call:
				if _, ok := x.Call.Value.(*ssa.Builtin); !ok {
					if g, ok := x.Call.Value.(*ssa.Function); ok && libModels[calleeName(g)] != nil {
						continue
					}
					return false
				}
			case *ssa.Go, *ssa.Defer, *ssa.Select, *ssa.Send, *ssa.MapUpdate, *ssa.MakeClosure:
				return false
			}
		}
	}
	return n <= 60
}

// ---------- function verification ----------

type FuncResult struct {
	Name    string
	VC      *VC
	Err     string // unsupported construct etc. (function not translated)
	Props   []string
	Assumed bool
}

func (e *Eng) VerifyFunc(fc *FuncContract) (res *FuncResult) {
	return e.verifyFunc(fc, false, 0)
}

// RefuteFunc generates the bounded, quantifier-free counterexample-search VC.
func (e *Eng) RefuteFunc(fc *FuncContract, k int) (res *FuncResult) {
	return e.verifyFunc(fc, true, k)
}

func (e *Eng) verifyFunc(fc *FuncContract, refute bool, unrollK int) (res *FuncResult) {
	full := shortPkg(fc.Pkg) + "." + fc.Name
	res = &FuncResult{Name: full, Props: fc.Props, Assumed: fc.Assumed}
	fn := e.findFunc(fc)
	if fn == nil {
		res.Err = "binding: function not found"
		return
	}
	vc := NewVC(full)
	vc.QF = refute
	res.VC = vc
	defer func() {
		if r := recover(); r != nil {
			switch x := r.(type) {
			case unsupported:
				res.Err = "unsupported: " + string(x)
			case specErr:
				res.Err = "binding: " + string(x)
			default:
				panic(r)
			}
		}
	}()
	tr := &FnTr{eng: e, vc: vc, fn: fn, ct: fc, env: map[ssa.Value]Val{}, refute: refute, unrollK: unrollK}
	tr.top = tr
	if refute {
		// the bounded counterexample search is best effort: generation itself is time-boxed
		tr.genDeadline = time.Now().Add(40 * time.Second)
	}
	tr.recDefers = recoverDefers(fn)
	tr.recovering = len(tr.recDefers) > 0
	m0 := vc.Fresh("M0", SMem)
	var a0 *Term
	if refute {
		a0 = Int(firstDynObj)
	} else {
		a0 = vc.Fresh("alloc0", SInt)
		vc.Assume(Le(Int(firstDynObj), a0))
		dynBase = a0.Name
	}
	tr.entry = State{Reach: tTrue, Mem: m0, Alloc: a0, Locks: vc.Fresh("L0", SMem), Ghost: vc.Fresh("G0", SMem)}
	if m0.Op == "sym" && memAllocOf != nil {
		memAllocOf[m0.Name] = a0
	}
	if fc.NoLocks {
		// entered with no mutex held at all (callers are obliged to show it)
		o, j := Sym("o!q", SInt), Sym("j!q", SInt)
		vc.Assume(Forall([]*Term{o, j}, Eq(Select(Select(tr.entry.Locks, o), j), Int(0)), Select(Select(tr.entry.Locks, o), j)))
	}
	for _, p := range fn.Params {
		tr.params = append(tr.params, tr.freshVal("p_"+p.Name(), p.Type(), a0))
	}
	// Go typing: two pointers to the same struct/array type are equal or do not overlap
	for i := range tr.params {
		pi, ok := tr.params[i].T.Underlying().(*types.Pointer)
		if !ok {
			continue
		}
		for j := i + 1; j < len(tr.params); j++ {
			pj, ok := tr.params[j].T.Underlying().(*types.Pointer)
			if !ok || !types.Identical(pi.Elem(), pj.Elem()) {
				continue
			}
			sz := Int(int64(sizeOf(pi.Elem())))
			a, b := tr.params[i], tr.params[j]
			vc.Assume(Or(Ne(a.L[0], b.L[0]), Eq(a.L[1], b.L[1]), Le(Add(a.L[1], sz), b.L[1]), Le(Add(b.L[1], sz), a.L[1])))
		}
	}
	if refute {
		// bounded search: parameter objects are pairwise distinct concrete ids (no aliasing)
		next := int64(500000)
		for pi, p := range tr.params {
			for i, lf := range layoutOf(p.T).Leaves {
				if lf.K == LObj && !lf.Str {
					tr.params[pi].L[i] = Int(next)
					next++
					// pointers point at the start of their object in the bounded search
					lv := layoutOf(p.T).Leaves
					if i+1 < len(lv) && lv[i+1].K == LOff && !(i+2 < len(lv) && lv[i+2].K == LLen) {
						tr.params[pi].L[i+1] = Int(0)
					}
				}
			}
		}
	}
	vc.Replay = &ReplayInfo{Fn: fn, Params: tr.params, M0: m0, Contract: fc}
	ctx := tr.calleeCtx(fn, tr.params, nil, tr.entry, tr.entry)
	// function-local recursive spec functions, evaluated over the entry state
	tr.recSpecs = map[string]*SpecFunc{}
	for _, rs := range fc.RecSpecs {
		tr.recSpecs[rs.Name] = rs
	}
	for _, rs := range fc.RecSpecs {
		rc := *ctx
		rc.clamp = true
		rc.bound = map[string]SV{}
		var ps []*Term
		for _, p := range rs.Params {
			s := Sym(p+"!rec", SInt)
			ps = append(ps, s)
			rc.bound[p] = mathInt(s)
		}
		body := rc.evalInt(rs.Body)
		vc.DefineRec("rs_"+rs.Name, ps, body)
	}
	// state-dependent recursive spec functions: sr_f(M, k) reads the memory it is given. Each
	// comes with a frame lemma - two memories that agree on every cell the body reads for the
	// indices 1..k give the same value - which is proved here by induction on k (obligations
	// staterec.f.base / staterec.f.step) and then assumed.
	tr.stateRecs = map[string]*SpecFunc{}
	for _, rs := range fc.StateRecs {
		tr.stateRecs[rs.Name] = rs
	}
	for _, rs := range fc.StateRecs {
		mp := Sym("M!rec", SMem)
		rc := *ctx
		rc.clamp = true
		rc.st = State{Reach: tTrue, Mem: mp, Alloc: nil, Locks: tr.entry.Locks, Ghost: tr.entry.Ghost}
		rc.old = rc.st
		rc.bound = map[string]SV{}
		// formal parameters: leaves of the typed ones, then the index
		var formals []*Term
		for _, p := range rs.Params {
			if te := rs.Like[p]; te != nil {
				proto := ctx.eval(te)
				if proto.T == nil {
					panic(specErr(rs.Pos + ": cannot type staterec parameter " + p))
				}
				sv := SV{T: proto.T}
				for i, lf := range layoutOf(proto.T).Leaves {
					srt := SInt
					if lf.K == LBool {
						srt = SBool
					}
					f := Sym(fmt.Sprintf("%s_%d!rec", p, i), srt)
					formals = append(formals, f)
					sv.L = append(sv.L, f)
				}
				rc.bound[p] = sv
			} else {
				f := Sym(p+"!rec", SInt)
				formals = append(formals, f)
				rc.bound[p] = mathInt(f)
			}
		}
		kp := formals[len(formals)-1]
		body := rc.evalInt(rs.Body)
		fun := "sr_" + rs.Name
		vc.DefineRec(fun, append([]*Term{mp}, formals...), body)
		if refute {
			continue
		}
		// cells read by the body: (select (select M!rec o) i)
		var cells []*Term
		seenC := map[string]bool{}
		var walk func(t *Term)
		walk = func(t *Term) {
			if t.Op == "select" && len(t.Args) == 2 && t.Args[0].Op == "select" && t.Args[0].Args[0].Op == "sym" && t.Args[0].Args[0].Name == mp.Name {
				if !seenC[t.Key()] {
					seenC[t.Key()] = true
					cells = append(cells, t)
				}
			}
			for _, a := range t.Args {
				walk(a)
			}
		}
		walk(body)
		// instance of the formals for one side: memory m, fresh/bound parameter terms ps, index j
		inst := func(c *Term, m *Term, ps []*Term, j *Term) *Term {
			sub := map[string]*Term{mp.Name: m, kp.Name: j}
			for i, f := range formals[:len(formals)-1] {
				sub[f.Name] = ps[i]
			}
			return substSyms(c, sub)
		}
		agree := func(m1 *Term, p1 []*Term, m2 *Term, p2 []*Term, j *Term) *Term {
			var cs []*Term
			for _, c := range cells {
				cs = append(cs, Eq(inst(c, m1, p1, j), inst(c, m2, p2, j)))
			}
			return And(cs...)
		}
		app := func(m *Term, ps []*Term, k *Term) *Term {
			return App(fun, SInt, append(append([]*Term{m}, ps...), k)...)
		}
		mkParams := func(tag string, bound bool) []*Term {
			var out []*Term
			for i, f := range formals[:len(formals)-1] {
				nm := fmt.Sprintf("p%d_%s", i, tag)
				if bound {
					out = append(out, Sym(nm+"!q", f.Sort))
				} else {
					out = append(out, vc.Fresh(nm, f.Sort))
				}
			}
			return out
		}
		m1, m2 := vc.Fresh("M1!fr", SMem), vc.Fresh("M2!fr", SMem)
		p1, p2 := mkParams("a", false), mkParams("b", false)
		k0 := vc.Fresh("k!fr", SInt)
		jq := Sym("j!q", SInt)
		vc.Oblige("staterec."+rs.Name, "base", Implies(Le(k0, Int(0)), Eq(app(m1, p1, k0), app(m2, p2, k0))), rs.Pos)
		hyp := Forall([]*Term{jq}, Implies(And(Le(Int(1), jq), Le(jq, Add(k0, Int(1)))), agree(m1, p1, m2, p2, jq)))
		vc.Oblige("staterec."+rs.Name, "step", Implies(And(Le(Int(0), k0), hyp, Eq(app(m1, p1, k0), app(m2, p2, k0))),
			Eq(app(m1, p1, Add(k0, Int(1))), app(m2, p2, Add(k0, Int(1))))), rs.Pos)
		a1, a2, kq := Sym("M1!q", SMem), Sym("M2!q", SMem), Sym("k!q", SInt)
		q1, q2 := mkParams("a", true), mkParams("b", true)
		jq2 := Sym("j2!q", SInt)
		vars := append(append([]*Term{a1, a2}, append(q1, q2...)...), kq)
		vc.Assume(Forall(vars,
			Implies(Forall([]*Term{jq2}, Implies(And(Le(Int(1), jq2), Le(jq2, kq)), agree(a1, q1, a2, q2, jq2))), Eq(app(a1, q1, kq), app(a2, q2, kq))),
			app(a1, q1, kq), app(a2, q2, kq)))
	}
	for _, c := range fc.Requires {
		vc.Assume(ctx.fact(c.E))
	}
	for _, c := range fc.DataInv {
		vc.Assume(ctx.fact(c.E))
	}
	if len(fc.PanicsIf) > 0 {
		var cs []*Term
		for _, c := range fc.PanicsIf {
			cs = append(cs, ctx.cond(c.E, tTrue))
		}
		tr.panicsIfT = vc.Def("panicsif", Or(cs...))
	}
	tr.st = tr.entry
	tr.assumeGlobals()
	// ghost lock counters are never negative
	{
		o, j := Sym("o!q", SInt), Sym("j!q", SInt)
		vc.Assume(Forall([]*Term{o, j}, Le(Int(0), Select(Select(tr.entry.Locks, o), j)), Select(Select(tr.entry.Locks, o), j)))
	}
	// facts proved by induction on the last variable (from 0), then available as lemmas
	for _, ind := range fc.Inducts {
		if refute {
			break
		}
		mk := func(last *Term) (*Term, []*Term) {
			ic := *ctx
			ic.bound = map[string]SV{}
			var vars []*Term
			for i, p := range ind.Params {
				if i == len(ind.Params)-1 && last != nil {
					ic.bound[p] = mathInt(last)
					continue
				}
				s := Sym(p+"!ind", SInt)
				vars = append(vars, s)
				ic.bound[p] = mathInt(s)
			}
			return ic.goal(ind.Body), vars
		}
		base, vars0 := mk(Int(0))
		if len(vars0) == 0 {
			vc.Oblige("induct."+ind.Name, "base", base, ind.Pos)
		} else {
			vc.Oblige("induct."+ind.Name, "base", Forall(vars0, base), ind.Pos)
		}
		nsym := Sym(ind.Params[len(ind.Params)-1]+"!ind", SInt)
		pn, _ := mk(nsym)
		pn1, vars1 := mk(Add(nsym, Int(1)))
		all := append(append([]*Term{}, vars1...), nsym)
		vc.Oblige("induct."+ind.Name, "step", Forall(all, Implies(And(Le(Int(0), nsym), pn), pn1)), ind.Pos)
		// as a lemma: triggered by the applications of the recursive functions it talks about
		vc.Assume(Forall(all, Implies(Le(Int(0), nsym), pn), recAppPatterns(pn, all)...))
	}
	if tr.recovering && (fc.HasModifies || fc.Pure) && !refute {
		tr.storeChecks = true
		for _, m := range fc.Modifies {
			tr.fnFrame = append(tr.fnFrame, ctx.lvals(m.E)...)
		}
	}
	// vacuity guard: the preconditions (with typing facts) must be satisfiable
	if !refute {
		cov := vc.Oblige("cover", "requires", tTrue, fc.File)
		cov.ExpectSat = true
	}
	tr.run(tr.entry)
	// vacuity guard: every return statement must be reachable under the assumptions made
	// along the way (an over-strong callee contract or model would make code dead)
	if !refute {
		for i, r := range tr.rets {
			if r.St.Reach.IsFalse() || fc.DeadReturns[i+1] {
				continue
			}
			cov := vc.Oblige("cover", fmt.Sprintf("return%d", i+1), r.St.Reach, r.Pos)
			cov.ExpectSat = true
		}
	}
	if fc.SplitReturns && !refute {
		for ri, r := range tr.rets {
			if r.St.Reach.IsFalse() {
				continue
			}
			rctx := tr.calleeCtx(fn, tr.params, nil, r.St, tr.entry)
			for i, c := range fc.DataInv {
				g := rctx.goal(c.E)
				vc.Oblige("datainv", fmt.Sprintf("%s@r%d", labelOr(c.Label, i+1), ri+1), Implies(r.St.Reach, g), c.Pos)
			}
		}
	}
	// normal exits
	if len(tr.rets) > 0 {
		sub := tr
		saved := tr.st
		_ = saved
		res0 := tr.joinReturnsTop(sub)
		tr.checkPost(fc, fn, res0, "post", false)
	}
	if tr.recovering && fn.Recover != nil {
		tr.exceptionalExit(fc, fn)
	}
	return
}

func shortPkg(p string) string {
	p = strings.TrimPrefix(p, modulePath+"/")
	p = strings.TrimPrefix(p, "lib/")
	return strings.ReplaceAll(p, "/", "_")
}

// joinReturnsTop merges return edges and splits the result tuple per result variable.
func (tr *FnTr) joinReturnsTop(sub *FnTr) []Val {
	sig := tr.fn.Signature
	var tup types.Type = sig.Results()
	flat := tr.joinReturns(sub, fakeValue{tup})
	var out []Val
	off := 0
	for i := 0; i < sig.Results().Len(); i++ {
		T := sig.Results().At(i).Type()
		n := sizeOf(T)
		out = append(out, Val{T: T, L: flat.L[off : off+n]})
		off += n
	}
	return out
}

type fakeValue struct{ t types.Type }

func (f fakeValue) Name() string                  { return "ret" }
func (f fakeValue) String() string                { return "ret" }
func (f fakeValue) Type() types.Type              { return f.t }
func (f fakeValue) Parent() *ssa.Function         { return nil }
func (f fakeValue) Referrers() *[]ssa.Instruction { return nil }
func (f fakeValue) Pos() token.Pos                { return token.NoPos }

func (tr *FnTr) checkPost(fc *FuncContract, fn *ssa.Function, results []Val, kind string, exc bool) {
	ctx := tr.calleeCtx(fn, tr.params, results, tr.st, tr.entry)
	cl := fc.Ensures
	for i, c := range cl {
		g := ctx.goal(c.E)
		tr.vc.Oblige(kind, labelOr(c.Label, i+1), Implies(tr.st.Reach, g), c.Pos)
		tr.vc.ObligeIdentities(kind, labelOr(c.Label, i+1), c.Pos)
	}
	for i, c := range fc.DataInv {
		if fc.SplitReturns && !exc && !tr.refute {
			break // checked per return statement in verifyFunc
		}
		g := ctx.goal(c.E)
		tr.vc.Oblige("datainv", labelOr(c.Label, i+1), Implies(tr.st.Reach, g), c.Pos)
	}
	if !exc && tr.panicsIfT != nil && !tr.refute {
		// a normal return happens only when no announced panic condition held at entry
		tr.vc.Oblige("panicsif", "definite", Implies(tr.st.Reach, Not(tr.panicsIfT)), fc.PanicsIf[0].Pos)
	}
	if exc {
		for i, c := range fc.Panics {
			g := ctx.goal(c.E)
			tr.vc.Oblige("panics", labelOr(c.Label, i+1), Implies(tr.st.Reach, g), c.Pos)
		}
	}
	if !tr.refute {
		lbl := "exit"
		if exc {
			lbl = "exc"
		}
		tr.lockBalance("lockbalance", lbl, tr.st, tr.entry.Locks)
	}
	if (fc.HasModifies || fc.Pure) && !tr.refute {
		var frame []cellRange
		ectx := tr.calleeCtx(fn, tr.params, nil, tr.entry, tr.entry)
		for _, m := range fc.Modifies {
			frame = append(frame, ectx.lvals(m.E)...)
		}
		lbl := "exit"
		if exc {
			lbl = "exc"
		}
		tr.frameObligation("frame", lbl, tr.st, tr.entry.Mem, tr.entry.Alloc, frame)
	}
}

// exceptionalExit: after any panic the deferred closures run with recover() != nil on an
// arbitrary memory (over-approximation of every possible panic point), then the recover
// block returns the named results.
func (tr *FnTr) exceptionalExit(fc *FuncContract, fn *ssa.Function) {
	vc := tr.vc
	if tr.refute {
		// precise exceptional edges
		var live []excEdge
		for _, e := range tr.excEdges {
			if !e.St.Reach.IsFalse() {
				live = append(live, e)
			}
		}
		if len(live) == 0 {
			return
		}
		st := live[len(live)-1].St
		rs := []*Term{st.Reach}
		for i := len(live) - 2; i >= 0; i-- {
			rs = append(rs, live[i].St.Reach)
			st.Mem = Ite(live[i].St.Reach, live[i].St.Mem, st.Mem)
			st.Alloc = Ite(live[i].St.Reach, live[i].St.Alloc, st.Alloc)
			st.Locks = Ite(live[i].St.Reach, live[i].St.Locks, st.Locks)
			st.Ghost = Ite(live[i].St.Reach, live[i].St.Ghost, st.Ghost)
		}
		st.Reach = vc.Def("reach_exc", Or(rs...))
		st.Mem = vc.Def("mem_exc", st.Mem)
		st.Alloc = vc.Def("alloc_exc", st.Alloc)
		tr.st = st
		tr.rets = nil
		tr.runDefers(true)
		tr.in[fn.Recover] = []*Edge{{To: fn.Recover, St: tr.st}}
		tr.procBlock(fn.Recover)
		if len(tr.rets) == 0 {
			return
		}
		res := tr.joinReturnsTop(tr)
		tr.checkPost(fc, fn, res, "postexc", true)
		return
	}
	st := State{Reach: tTrue, Locks: vc.Fresh("locks_exc", SMem), Ghost: vc.Fresh("ghost_exc", SMem)}
	{
		// the lock counters at the exceptional exit are those of one of the panic points the
		// recovering defer covers
		groups := map[string][]*Term{}
		locksOf := map[string]*Term{}
		var order []string
		for _, el := range tr.excLocks {
			if el.Locks == nil {
				continue
			}
			k := el.Locks.Key()
			if _, ok := groups[k]; !ok {
				order = append(order, k)
				locksOf[k] = el.Locks
			}
			groups[k] = append(groups[k], el.Reach)
		}
		var alts []*Term
		for _, k := range order {
			alts = append(alts, And(Or(groups[k]...), Eq(st.Locks, locksOf[k])))
		}
		switch {
		case len(alts) == 0:
			st.Reach = tFalse
		case len(order) == 1:
			// one lock state at every panic point: no need to say which point it was
			vc.Assume(Eq(st.Locks, locksOf[order[0]]))
		default:
			vc.Assume(Or(alts...))
		}
	}
	st.Alloc = vc.Fresh("alloc_exc", SInt)
	vc.Assume(Le(tr.entry.Alloc, st.Alloc))
	if tr.storeChecks {
		// every write was checked against the frame: at any panic point memory agrees
		// with the entry memory outside the frame and outside fresh objects
		st.Mem = tr.havocMem(tr.entry.Mem, tr.entry.Alloc, tr.fnFrame, true, "exc")
	} else {
		st.Mem = tr.havocAllMemKeepNothing("exc")
	}
	// private objects allocated so far keep their identity (their ids are < alloc_exc)
	for _, o := range tr.privObjs {
		vc.Assume(Lt(o, st.Alloc))
	}
	// the result slots hold at the exceptional exit what they held at one of the covered
	// panic points (grouped by content: usually the zero value everywhere)
	if slots := tr.resultSlots(); len(slots) > 0 && len(tr.excSlots) > 0 {
		var cur []*Term
		for _, a := range slots {
			obj := tr.privAllocObj[a]
			n := sizeOf(a.Type().Underlying().(*types.Pointer).Elem())
			for k := 0; k < n && k < 8; k++ {
				cur = append(cur, Select(Select(st.Mem, obj), Int(int64(k))))
			}
		}
		groups := map[string][]*Term{}
		valsOf := map[string][]*Term{}
		var order []string
		for _, es := range tr.excSlots {
			var kb strings.Builder
			for _, v := range es.Vals {
				kb.WriteString(v.Key())
				kb.WriteByte('|')
			}
			k := kb.String()
			if _, ok := groups[k]; !ok {
				order = append(order, k)
				valsOf[k] = es.Vals
			}
			groups[k] = append(groups[k], es.Reach)
		}
		eqAll := func(vals []*Term) *Term {
			var cs []*Term
			for i := range cur {
				if i < len(vals) {
					cs = append(cs, Eq(cur[i], vals[i]))
				}
			}
			return And(cs...)
		}
		if os.Getenv("GOCV_DEBUG_EXC") != "" {
			fmt.Fprintf(os.Stderr, "exc slots: %d slots, %d edges, %d groups\n", len(slots), len(tr.excSlots), len(order))
			for i, k := range order {
				if i < 5 {
					fmt.Fprintf(os.Stderr, "  group %d: %.200s\n", i, k)
				}
			}
		}
		if len(order) == 1 {
			vc.Assume(eqAll(valsOf[order[0]]))
		} else if len(order) <= 12 {
			var alts []*Term
			for _, k := range order {
				alts = append(alts, And(Or(groups[k]...), eqAll(valsOf[k])))
			}
			vc.Assume(Or(alts...))
		}
	}
	tr.st = st
	tr.assumeGlobals()
	tr.rets = nil
	tr.runDefers(true)
	tr.in[fn.Recover] = []*Edge{{To: fn.Recover, St: tr.st}}
	tr.procBlock(fn.Recover)
	if len(tr.rets) == 0 {
		return
	}
	res := tr.joinReturnsTop(tr)
	tr.checkPost(fc, fn, res, "postexc", true)
}

func (tr *FnTr) havocAllMemKeepNothing(tag string) *Term {
	return tr.vc.Fresh("mem_"+tag, SMem)
}

// ---------- lemmas ----------

func (e *Eng) VerifyLemma(lm *Lemma) *FuncResult {
	full := shortPkg(lm.Pkg) + ".lemma." + lm.Name
	res := &FuncResult{Name: full, Props: lm.Props}
	vc := NewVC(full)
	res.VC = vc
	defer func() {
		if r := recover(); r != nil {
			switch x := r.(type) {
			case unsupported:
				res.Err = "unsupported: " + string(x)
			case specErr:
				res.Err = "binding: " + string(x)
			default:
				panic(r)
			}
		}
	}()
	tr := &FnTr{eng: e, vc: vc, env: map[ssa.Value]Val{}}
	tr.top = tr
	// give the lemma a package context for constants
	if sp := e.pkgs[lm.Pkg]; sp != nil {
		for _, m := range sp.Members {
			if f, ok := m.(*ssa.Function); ok {
				tr.fn = f
				break
			}
		}
	}
	m0 := vc.Fresh("M0", SMem)
	st := State{Reach: tTrue, Mem: m0, Alloc: Int(firstDynObj), Locks: vc.Fresh("L0", SMem), Ghost: vc.Fresh("G0", SMem)}
	tr.entry = st
	ctx := &SpecCtx{tr: tr, st: st, old: st}
	if len(lm.Split) == 0 {
		g := ctx.goal(lm.E)
		vc.Oblige("lemma", "", g, lm.Pos)
		return res
	}
	// case split: one obligation per value of the split variable(s)
	var rec func(i int, bound map[string]SV, label string)
	rec = func(i int, bound map[string]SV, label string) {
		if i == len(lm.Split) {
			c2 := *ctx
			c2.bound = bound
			g := c2.goal(lm.E)
			vc.Oblige("lemma", strings.TrimPrefix(label, "."), g, lm.Pos)
			return
		}
		sp := lm.Split[i]
		for v := sp.Lo; v <= sp.Hi; v++ {
			nb := map[string]SV{}
			for k, x := range bound {
				nb[k] = x
			}
			nb[sp.Var] = mathInt(Int(v))
			rec(i+1, nb, fmt.Sprintf("%s.%s%d", label, sp.Var, v))
		}
	}
	rec(0, map[string]SV{}, "")
	return res
}

// ---------- selection ----------

// Targets returns contracts and lemmas serving a property (all if prop == "").
func (e *Eng) Targets(prop string) ([]*FuncContract, []*Lemma) {
	var fs []*FuncContract
	var ls []*Lemma
	has := func(ps []string) bool {
		if prop == "" {
			return true
		}
		for _, p := range ps {
			if p == prop {
				return true
			}
		}
		return false
	}
	for _, cf := range e.cfiles {
		for _, f := range cf.Funcs {
			if has(f.Props) {
				fs = append(fs, f)
			}
		}
		for _, l := range cf.Lemmas {
			if has(l.Props) {
				ls = append(ls, l)
			}
		}
	}
	sort.SliceStable(fs, func(i, j int) bool { return fs[i].Pkg+fs[i].Name < fs[j].Pkg+fs[j].Name })
	return fs, ls
}

// recAppPatterns: the applications rs_f(...) inside t that mention bound variables, minimal
// set covering all of vars (a multi-pattern); empty if some variable is not covered.
func recAppPatterns(t *Term, vars []*Term) []*Term {
	isVar := map[string]bool{}
	for _, v := range vars {
		isVar[v.Name] = true
	}
	var apps []*Term
	seen := map[string]bool{}
	var walk func(x *Term)
	walk = func(x *Term) {
		if strings.HasPrefix(x.Op, "rs_") {
			m := map[string]bool{}
			x.syms(m)
			hit := false
			for s := range m {
				if isVar[s] {
					hit = true
				}
			}
			if hit && !seen[x.Key()] {
				seen[x.Key()] = true
				apps = append(apps, x)
			}
		}
		for _, a := range x.Args {
			walk(a)
		}
	}
	walk(t)
	covered := map[string]bool{}
	var out []*Term
	for _, a := range apps {
		m := map[string]bool{}
		a.syms(m)
		adds := false
		for s := range m {
			if isVar[s] && !covered[s] {
				adds = true
			}
		}
		if adds {
			out = append(out, a)
			for s := range m {
				if isVar[s] {
					covered[s] = true
				}
			}
		}
	}
	for _, v := range vars {
		if !covered[v.Name] {
			return nil
		}
	}
	return out
}
