package main

// Evaluation of contract expressions into SMT terms in a given program state.
// All arithmetic in contracts is mathematical (unbounded integers); `/` and `%` are SMT
// div/mod (floor for positive divisors); integer conversions wrap as in Go.

import (
	"os"
	"fmt"
	"go/ast"
	"go/types"
	"math/big"

	"golang.org/x/tools/go/ssa"
)

type SV struct {
	T      types.Type // nil: mathematical Int or Bool
	L      []*Term
	IsBool bool
	IsNil  bool
	Addr   *[2]*Term // (obj, off) when the value lives in memory
	Arr    bool      // raw SMT array (for uf arguments)
}

type SpecCtx struct {
	calleeRec map[string]*SpecFunc // clauses of a callee's contract: its recursive spec functions...
	recInst   map[string]string    // ...instantiated for this call (SMT function names)
	recBase   *SpecCtx             // ...over the pre-state of the call
	inQuant bool // evaluating the body of a quantifier (bound variables are in scope)
	tr     *FnTr
	st     State
	old    State
	lookup func(name string) (SV, bool)
	bound  map[string]SV
	depth  int
	qn     int
	entryCtx *SpecCtx // loop invariants: the state on entry to the loop, for entry(e)
	sides  *[]*Term // typing facts of memory cells read while evaluating
	assume bool     // the formula being evaluated sits in an assumed (positive-hypothesis) position
	pkg    *ssa.Package // package whose constants and variables unqualified names refer to
	clamp  bool     // recursive spec bodies: integer cells are clamped into their type's range
	guards []*Term  // antecedents on the path from the clause root (for lazy instantiation)
	guard  *Term    // reachability guard under which the clause is assumed
}

// goal evaluates a clause that is to be proved: typing facts of the cells it reads are
// hypotheses. fact evaluates a clause that is assumed: the typing facts are assumed too.
func (c *SpecCtx) goal(e *Expr) *Term {
	var sides []*Term
	n := *c
	n.sides = &sides
	n.assume = false
	t := n.evalBool(e)
	return Implies(And(sides...), t)
}

func (c *SpecCtx) fact(e *Expr) *Term {
	var sides []*Term
	n := *c
	n.sides = &sides
	n.assume = true
	t := n.evalBool(e)
	return And(And(sides...), t)
}

// cond: the truth value of e in this state as a term usable in either polarity; the typing
// facts of the memory cells it reads are assumed (under the given reachability).
func (c *SpecCtx) cond(e *Expr, reach *Term) *Term {
	var sides []*Term
	n := *c
	n.sides = &sides
	n.assume = true
	t := n.evalBool(e)
	if len(sides) > 0 {
		c.tr.vc.Assume(Implies(reach, And(sides...)))
	}
	return t
}

func (c *SpecCtx) intTerm(e *Expr) *Term {
	var sides []*Term
	n := *c
	n.sides = &sides
	t := n.evalInt(e)
	for _, s := range sides {
		c.tr.vc.Assume(s)
	}
	return t
}

func (c *SpecCtx) side(t *Term) {
	if c.sides != nil && !t.IsTrue() {
		*c.sides = append(*c.sides, t)
	}
}

type specErr string

func (c *SpecCtx) fail(e *Expr, f string, a ...interface{}) {
	pos := ""
	if e != nil {
		pos = e.Pos + ": "
	}
	panic(specErr(pos + fmt.Sprintf(f, a...)))
}

func mathInt(t *Term) SV  { return SV{L: []*Term{t}} }
func mathBool(t *Term) SV { return SV{L: []*Term{t}, IsBool: true} }

func (v SV) isBool() bool { return v.IsBool || (v.T != nil && isBoolean(v.T)) }
func (v SV) isInt() bool  { return !v.IsNil && !v.Arr && ((v.T == nil && !v.IsBool) || (v.T != nil && isInteger(v.T))) }

func (c *SpecCtx) evalBool(e *Expr) *Term {
	v := c.eval(e)
	if !v.isBool() {
		c.fail(e, "boolean expected: %s", e)
	}
	return v.L[0]
}

func (c *SpecCtx) evalInt(e *Expr) *Term {
	v := c.eval(e)
	if !v.isInt() {
		c.fail(e, "integer expected: %s", e)
	}
	return v.L[0]
}

func (c *SpecCtx) withState(st State) *SpecCtx {
	n := *c
	n.st = st
	return &n
}

func (c *SpecCtx) eval(e *Expr) SV {
	switch e.Op {
	case "num":
		return mathInt(IntB(e.Num))
	case "str":
		id := c.tr.eng.stringID(e.Name)
		c.tr.eng.assumeString(c.tr.vc, id, e.Name)
		return SV{T: types.Typ[types.String], L: []*Term{Int(id), Int(0), Int(int64(len(e.Name)))}}
	case "id":
		switch e.Name {
		case "true":
			return mathBool(tTrue)
		case "false":
			return mathBool(tFalse)
		case "nil":
			return SV{IsNil: true}
		}
		if v, ok := c.bound[e.Name]; ok {
			return v
		}
		if c.lookup != nil {
			if v, ok := c.lookup(e.Name); ok {
				return c.reload(v)
			}
		}
		pkg := c.pkg
		if pkg == nil && c.tr.fn != nil {
			pkg = c.tr.fn.Pkg
		}
		if k, ok := c.tr.eng.constantIn(pkg, e.Name); ok {
			return mathInt(IntB(k))
		}
		if pkg != nil {
			if g, ok := pkg.Members[e.Name].(*ssa.Global); ok {
				pt := g.Type().Underlying().(*types.Pointer)
				if c.tr.top != nil {
					c.tr.top.noteGlobal(g)
				}
				return c.loadSVLazy(Int(c.tr.eng.globalID(g)), Int(0), pt.Elem())
			}
		}
		c.fail(e, "unknown name %q", e.Name)
	case "old":
		return c.withState(c.old).eval(e.Args[0])
	case "field":
		return c.field(e, c.eval(e.Args[0]), e.Name)
	case "index":
		return c.index(e, c.eval(e.Args[0]), c.evalInt(e.Args[1]))
	case "slice":
		return c.sliceOf(e)
	case "call":
		return c.callBuiltin(e)
	case "spec":
		return c.specCall(e)
	case "un":
		if e.Name == "!" {
			n := *c
			n.assume = !c.assume
			return mathBool(Not(n.evalBool(e.Args[0])))
		}
		x := c.eval(e.Args[0])
		switch e.Name {
		case "-":
			return mathInt(Neg(c.asInt(e, x)))
		case "!":
			return mathBool(Not(c.asBool(e, x)))
		case "#":
			return mathInt(c.asInt(e, x))
		case "*":
			return c.deref(e, x)
		case "&":
			if x.Addr == nil {
				c.fail(e, "& of non-addressable")
			}
			return SV{T: types.NewPointer(x.T), L: []*Term{x.Addr[0], x.Addr[1]}}
		}
	case "bin":
		return c.binary(e)
	case "forall", "exists":
		return c.quant(e)
	}
	c.fail(e, "cannot evaluate %s", e)
	return SV{}
}

// reload re-reads an addressable value in the current context memory.
func (c *SpecCtx) reload(v SV) SV {
	if v.Addr == nil || v.T == nil {
		return v
	}
	return c.loadSV(v.Addr[0], v.Addr[1], v.T)
}

func (c *SpecCtx) loadSV(obj, off *Term, T types.Type) SV {
	lay := layoutOf(T)
	if lay.N() > 256 {
		// large aggregate: keep address only
		return SV{T: T, Addr: &[2]*Term{obj, off}}
	}
	out := SV{T: T, L: make([]*Term, lay.N()), Addr: &[2]*Term{obj, off}}
	for i, lf := range lay.Leaves {
		out.L[i] = leafOfCell(lf, readCell(c.st.Mem, obj, Add(off, Int(int64(i))), leafTag(lf)))
		if c.clamp {
			// total, well-behaved value whatever the memory holds; equal to the cell for
			// well-typed memory
			switch lf.K {
			case LInt:
				lo, hi := intRange(lf.B)
				out.L[i] = Ite(Lt(out.L[i], IntB(lo)), IntB(lo), Ite(Gt(out.L[i], IntB(hi)), IntB(hi), out.L[i]))
			case LLen, LCap, LOff:
				out.L[i] = Ite(Lt(out.L[i], Int(0)), Int(0), out.L[i])
			}
		}
	}
	if !c.clamp && objBound != nil && os.Getenv("GOCV_NOSPECBOUND") == "" {
		// a reference found in a memory version is older than everything allocated after
		// that version was created (same rule as for loads in the code)
		for i, lf := range lay.Leaves {
			if lf.K == LObj && !lf.Str && out.L[i].IntConst() == nil {
				if a := allocOfCell(out.L[i]); a != nil {
					c.side(Lt(out.L[i], a))
				}
				if e, ok := boundFromCell(out.L[i]); ok && e < curEpoch {
					k := out.L[i].Key()
					if _, isAlloc := allocEpoch[k]; !isAlloc {
						if old, has := objBound[k]; !has || e < old {
							objBound[k] = e
						}
					}
				}
			}
		}
	}
	// references found in the memory of a state are older than that state's allocation counter
	var allocBound *Term
	if !c.clamp {
		allocBound = c.st.Alloc
	}
	c.side(typingFacts(Val{T: T, L: out.L}, allocBound))
	if !c.clamp && c.tr != nil && c.tr.eng != nil {
		if !c.inQuant {
			c.side(c.tr.ptrSepFacts(Val{T: T, L: out.L}))
		}
		c.side(c.tr.globalSepFacts(Val{T: T, L: out.L}))
	}
	return out
}

func (c *SpecCtx) asInt(e *Expr, v SV) *Term {
	if !v.isInt() {
		c.fail(e, "integer operand expected in %s", e)
	}
	return v.L[0]
}
func (c *SpecCtx) asBool(e *Expr, v SV) *Term {
	if !v.isBool() {
		c.fail(e, "boolean operand expected in %s", e)
	}
	return v.L[0]
}

func (c *SpecCtx) deref(e *Expr, x SV) SV {
	if x.T == nil {
		c.fail(e, "deref of non-pointer")
	}
	p, ok := x.T.Underlying().(*types.Pointer)
	if !ok {
		c.fail(e, "deref of non-pointer %s", x.T)
	}
	return c.loadSV(x.L[0], x.L[1], p.Elem())
}

func (c *SpecCtx) field(e *Expr, x SV, name string) SV {
	if x.T == nil {
		c.fail(e, "field %s of untyped value", name)
	}
	obj, index, indirect := types.LookupFieldOrMethod(x.T, true, nil, name)
	if obj == nil && c.pkg != nil {
		obj, index, indirect = types.LookupFieldOrMethod(x.T, true, c.pkg.Pkg, name)
	}
	if obj == nil {
		// unexported field: need the package
		pkg := c.tr.fn.Pkg
		if pkg != nil {
			obj, index, indirect = types.LookupFieldOrMethod(x.T, true, pkg.Pkg, name)
		}
		if obj == nil {
			if n := namedOf(x.T); n != nil && n.Obj().Pkg() != nil {
				obj, index, indirect = types.LookupFieldOrMethod(x.T, true, n.Obj().Pkg(), name)
			}
		}
	}
	_ = indirect
	if _, ok := obj.(*types.Var); !ok || obj == nil {
		c.fail(e, "no field %s in %s", name, x.T)
	}
	cur := x
	for _, idx := range index {
		if p, ok := cur.T.Underlying().(*types.Pointer); ok {
			cur = c.loadSVLazy(cur.L[0], cur.L[1], p.Elem())
		}
		st := cur.T.Underlying().(*types.Struct)
		off := fieldOffset(st, idx)
		ft := st.Field(idx).Type()
		n := sizeOf(ft)
		nv := SV{T: ft}
		if cur.Addr != nil {
			nv.Addr = &[2]*Term{cur.Addr[0], Add(cur.Addr[1], Int(int64(off)))}
		}
		if cur.L != nil {
			nv.L = cur.L[off : off+n]
		} else {
			nv = c.loadSV(nv.Addr[0], nv.Addr[1], ft)
		}
		cur = nv
	}
	return cur
}

func namedOf(T types.Type) *types.Named {
	if p, ok := T.(*types.Pointer); ok {
		T = p.Elem()
	}
	n, _ := T.(*types.Named)
	return n
}

// loadSVLazy gives an addressed value without reading leaves of big structs.
func (c *SpecCtx) loadSVLazy(obj, off *Term, T types.Type) SV {
	if sizeOf(T) > 8 {
		return SV{T: T, Addr: &[2]*Term{obj, off}}
	}
	return c.loadSV(obj, off, T)
}

func (c *SpecCtx) index(e *Expr, x SV, i *Term) SV {
	if x.Arr {
		return mathInt(Select(x.L[0], i))
	}
	if x.T == nil {
		c.fail(e, "index of untyped value")
	}
	switch t := x.T.Underlying().(type) {
	case *types.Slice:
		es := sizeOf(t.Elem())
		return c.loadSV(x.L[0], Add(x.L[1], Mul(i, Int(int64(es)))), t.Elem())
	case *types.Pointer:
		arr, ok := t.Elem().Underlying().(*types.Array)
		if !ok {
			c.fail(e, "index of pointer to non-array")
		}
		es := sizeOf(arr.Elem())
		return c.loadSV(x.L[0], Add(x.L[1], Mul(i, Int(int64(es)))), arr.Elem())
	case *types.Array:
		es := sizeOf(t.Elem())
		if x.Addr != nil {
			return c.loadSV(x.Addr[0], Add(x.Addr[1], Mul(i, Int(int64(es)))), t.Elem())
		}
		if k := i.IntConst(); k != nil && k.IsInt64() {
			n := int(k.Int64())
			return SV{T: t.Elem(), L: x.L[n*es : (n+1)*es]}
		}
		// register array with symbolic index
		n := int(t.Len())
		out := SV{T: t.Elem(), L: make([]*Term, es)}
		for k := 0; k < es; k++ {
			r := x.L[(n-1)*es+k]
			for q := n - 2; q >= 0; q-- {
				r = Ite(Eq(i, Int(int64(q))), x.L[q*es+k], r)
			}
			out.L[k] = r
		}
		return out
	case *types.Basic: // string
		sc := Select(Select(c.tr.eng.strMem(), x.L[0]), Add(x.L[1], i))
		c.side(inRange(sc, types.Typ[types.Uint8]))
		return SV{T: types.Typ[types.Uint8], L: []*Term{sc}}
	}
	c.fail(e, "cannot index %s", x.T)
	return SV{}
}

func (c *SpecCtx) sliceOf(e *Expr) SV {
	x := c.eval(e.Args[0])
	lo := Int(0)
	if e.Args[1] != nil {
		lo = c.evalInt(e.Args[1])
	}
	if x.T == nil {
		c.fail(e, "slice of untyped value")
	}
	switch t := x.T.Underlying().(type) {
	case *types.Slice:
		hi := x.L[2]
		if e.Args[2] != nil {
			hi = c.evalInt(e.Args[2])
		}
		es := sizeOf(t.Elem())
		return SV{T: x.T, L: []*Term{x.L[0], Add(x.L[1], Mul(lo, Int(int64(es)))), Sub(hi, lo), Sub(x.L[3], lo)}}
	case *types.Array:
		if x.Addr == nil {
			c.fail(e, "slice of non-addressable array")
		}
		hi := Int(t.Len())
		if e.Args[2] != nil {
			hi = c.evalInt(e.Args[2])
		}
		es := sizeOf(t.Elem())
		return SV{T: types.NewSlice(t.Elem()), L: []*Term{x.Addr[0], Add(x.Addr[1], Mul(lo, Int(int64(es)))), Sub(hi, lo), Sub(Int(t.Len()), lo)}}
	case *types.Pointer:
		arr, ok := t.Elem().Underlying().(*types.Array)
		if !ok {
			c.fail(e, "slice of pointer to non-array")
		}
		hi := Int(arr.Len())
		if e.Args[2] != nil {
			hi = c.evalInt(e.Args[2])
		}
		es := sizeOf(arr.Elem())
		return SV{T: types.NewSlice(arr.Elem()), L: []*Term{x.L[0], Add(x.L[1], Mul(lo, Int(int64(es)))), Sub(hi, lo), Sub(Int(arr.Len()), lo)}}
	case *types.Basic:
		hi := x.L[2]
		if e.Args[2] != nil {
			hi = c.evalInt(e.Args[2])
		}
		return SV{T: x.T, L: []*Term{x.L[0], Add(x.L[1], lo), Sub(hi, lo)}}
	}
	c.fail(e, "cannot slice %s", x.T)
	return SV{}
}

var convTypes = map[string]*types.Basic{
	"int": types.Typ[types.Int], "int8": types.Typ[types.Int8], "int16": types.Typ[types.Int16], "int32": types.Typ[types.Int32], "int64": types.Typ[types.Int64],
	"uint": types.Typ[types.Uint], "uint8": types.Typ[types.Uint8], "byte": types.Typ[types.Uint8], "uint16": types.Typ[types.Uint16], "uint32": types.Typ[types.Uint32], "uint64": types.Typ[types.Uint64],
}

func (c *SpecCtx) callBuiltin(e *Expr) SV {
	if b, ok := convTypes[e.Name]; ok && len(e.Args) == 1 {
		return mathInt(wrap(c.evalInt(e.Args[0]), b))
	}
	switch e.Name {
	case "len", "cap":
		x := c.eval(e.Args[0])
		if x.T == nil {
			c.fail(e, "len of untyped value")
		}
		switch t := x.T.Underlying().(type) {
		case *types.Slice:
			if e.Name == "len" {
				return mathInt(x.L[2])
			}
			return mathInt(x.L[3])
		case *types.Basic:
			return mathInt(x.L[2])
		case *types.Array:
			return mathInt(Int(t.Len()))
		case *types.Pointer:
			if a, ok := t.Elem().Underlying().(*types.Array); ok {
				return mathInt(Int(a.Len()))
			}
		}
		c.fail(e, "len of %s", x.T)
	case "ite":
		cond := c.evalBool(e.Args[0])
		a, b := c.eval(e.Args[1]), c.eval(e.Args[2])
		if len(a.L) != len(b.L) {
			c.fail(e, "ite branches differ")
		}
		out := a
		out.Addr = nil
		out.L = make([]*Term, len(a.L))
		for i := range a.L {
			out.L[i] = Ite(cond, a.L[i], b.L[i])
		}
		return out
	case "min", "max":
		a, b := c.evalInt(e.Args[0]), c.evalInt(e.Args[1])
		if e.Name == "min" {
			return mathInt(Ite(Lt(a, b), a, b))
		}
		return mathInt(Ite(Lt(a, b), b, a))
	case "abs":
		a := c.evalInt(e.Args[0])
		return mathInt(Ite(Lt(a, Int(0)), Neg(a), a))
	case "obj": // object identity of a pointer/slice
		x := c.eval(e.Args[0])
		return mathInt(x.L[0])
	case "off":
		x := c.eval(e.Args[0])
		return mathInt(x.L[1])
	case "entry": // value of an expression when the enclosing loop was entered
		if c.entryCtx == nil {
			c.fail(e, "entry() is only meaningful in loop invariants")
		}
		n := *c.entryCtx
		n.sides = c.sides
		n.assume = c.assume
		n.bound = c.bound
		return n.eval(e.Args[0])
	case "be": // big-endian value of a byte slice (same symbol as the SetBytes model)
		x := c.eval(e.Args[0])
		if x.T == nil || !isByteSlice(x.T) {
			c.fail(e, "be(): byte slice expected")
		}
		arr := Select(c.st.Mem, x.L[0])
		if k := x.L[2].IntConst(); k != nil && k.IsInt64() && k.Int64() <= 80 {
			n := int(k.Int64())
			var parts []*Term
			for i := 0; i < n; i++ {
				b := readCell(c.st.Mem, x.L[0], Add(x.L[1], Int(int64(i))), leafTag(Leaf{K: LInt, B: types.Typ[types.Uint8]}))
				c.side(And(Le(Int(0), b), Le(b, Int(255))))
				parts = append(parts, Mul(b, Pow2(uint(8*(n-1-i)))))
			}
			if len(parts) == 0 {
				return mathInt(Int(0))
			}
			return mathInt(Add(parts...))
		}
		c.tr.vc.DeclareUF("bebytes", []Sort{SArr, SInt, SInt}, SInt)
		u8 := leafTag(Leaf{K: LInt, B: types.Typ[types.Uint8]})
		arr = Select(readThrough(c.st.Mem, x.L[0], u8, 0), x.L[0])
		return mathInt(App("bebytes", SInt, arr, x.L[1], x.L[2]))
	case "glen", "gbyte", "garr": // ghost byte buffer of a writer / hasher / *bytes.Buffer
		x := c.eval(e.Args[0])
		if len(x.L) == 0 {
			c.fail(e, "%s(): not a writer value", e.Name)
		}
		arr := Select(c.st.Ghost, x.L[0])
		switch e.Name {
		case "glen":
			return mathInt(Select(arr, Int(-1)))
		case "gbyte":
			return mathInt(Select(arr, c.evalInt(e.Args[1])))
		}
		return SV{Arr: true, L: []*Term{arr}}
	case "bigval": // the mathematical value of a big.Int / Number (value or pointer)
		x := c.eval(e.Args[0])
		var obj, off *Term
		if x.T != nil {
			if _, ok := x.T.Underlying().(*types.Pointer); ok {
				obj, off = x.L[0], x.L[1]
			}
		}
		if obj == nil {
			if x.Addr == nil {
				c.fail(e, "bigval(): not a big.Int location")
			}
			obj, off = x.Addr[0], x.Addr[1]
		}
		return mathInt(Select(Select(c.st.Mem, obj), off))
	case "locked", "lockcount": // ghost lock counter of a mutex (value or pointer)
		x := c.eval(e.Args[0])
		var obj, off *Term
		if x.T != nil {
			if _, ok := x.T.Underlying().(*types.Pointer); ok {
				obj, off = x.L[0], x.L[1]
			}
		}
		if obj == nil {
			if x.Addr == nil {
				c.fail(e, "locked(): not a mutex location")
			}
			obj, off = x.Addr[0], x.Addr[1]
		}
		cnt := Select(Select(c.st.Locks, obj), off)
		if e.Name == "lockcount" {
			return mathInt(cnt)
		}
		return mathBool(Gt(cnt, Int(0)))
	case "loopfresh": // allocated since the enclosing loop was entered
		if c.entryCtx == nil {
			c.fail(e, "loopfresh() is only meaningful in loop invariants")
		}
		x := c.eval(e.Args[0])
		return mathBool(Ge(x.L[0], c.entryCtx.st.Alloc))
	case "fresh": // allocated during the call / since entry
		x := c.eval(e.Args[0])
		return mathBool(And(Ge(x.L[0], c.old.Alloc), Lt(x.L[0], c.st.Alloc)))
	case "arr": // the raw cell array of the object a slice/pointer points into
		x := c.eval(e.Args[0])
		if isString(x.T) {
			return SV{Arr: true, L: []*Term{Select(c.tr.eng.strMem(), x.L[0])}}
		}
		return SV{Arr: true, L: []*Term{Select(c.st.Mem, x.L[0])}}
	case "bool2int":
		return mathInt(Ite(c.evalBool(e.Args[0]), Int(1), Int(0)))
	case "nfeq": // a == b, proved through polynomial normalisation with div-atoms (see poly.go)
		a, b := c.evalInt(e.Args[0]), c.evalInt(e.Args[1])
		if c.assume {
			return mathBool(Eq(a, b))
		}
		x := Sub(a, b)
		k, rest, ok, why := modWitness(x, new(big.Int).Lsh(big.NewInt(1), 4096), c.tr.top.monoDefs)
		_ = k
		if !ok {
			c.tr.note("normal-form tactic failed: " + why)
			return mathBool(Eq(a, b))
		}
		// with a modulus larger than every coefficient K is empty and Rest is the whole
		// normal form: Rest = 0 needs only the ranges of the div terms
		c.tr.vc.pendingIdentity = append(c.tr.vc.pendingIdentity, Eq(x, rest))
		return mathBool(Eq(rest, Int(0)))
	case "xor", "bitor", "bitand": // the engine's uninterpreted bit operations (same symbols as the code's)
		name := map[string]string{"xor": "bxor", "bitor": "bor", "bitand": "band"}[e.Name]
		c.tr.vc.DeclareUF(name, []Sort{SInt, SInt}, SInt)
		return mathInt(App(name, SInt, c.evalInt(e.Args[0]), c.evalInt(e.Args[1])))
	}
	c.fail(e, "unknown function %s in contract", e.Name)
	return SV{}
}

func (c *SpecCtx) specCall(e *Expr) SV {
	eng := c.tr.eng
	if rs := c.calleeRec[e.Name]; rs != nil && c.recInst != nil && c.recBase != nil {
		if len(rs.Params) != len(e.Args) {
			c.fail(e, "@%s expects %d arguments", e.Name, len(rs.Params))
		}
		fun := c.recInst[e.Name]
		if fun == "" {
			eng.qctr++
			fun = fmt.Sprintf("rs_%s_c%d", rs.Name, eng.qctr)
			c.recInst[e.Name] = fun
			rc := *c.recBase
			rc.calleeRec, rc.recInst, rc.recBase = c.calleeRec, c.recInst, c.recBase
			rc.clamp = true
			rc.sides = nil
			rc.assume = false
			rc.bound = map[string]SV{}
			var ps []*Term
			for _, p := range rs.Params {
				ps = append(ps, Sym(p+"!rec", SInt))
				rc.bound[p] = mathInt(ps[len(ps)-1])
			}
			body := rc.evalInt(rs.Body)
			c.tr.vc.DefineRec(fun, ps, body)
		}
		var args []*Term
		for _, a := range e.Args {
			args = append(args, c.evalInt(a))
		}
		return mathInt(App(fun, SInt, args...))
	}
	if rs := c.tr.top.stateRecs[e.Name]; rs != nil {
		if len(e.Args) != len(rs.Params) {
			c.fail(e, "@%s expects %d arguments", e.Name, len(rs.Params))
		}
		if c.st.Mem == nil {
			c.fail(e, "@%s used where no memory state is defined", e.Name)
		}
		args := []*Term{c.st.Mem}
		for i, p := range rs.Params {
			if rs.Like[p] != nil {
				v := c.eval(e.Args[i])
				if v.T == nil || len(v.L) == 0 {
					c.fail(e, "@%s: argument %d must be a value (slice, pointer, ...)", e.Name, i+1)
				}
				args = append(args, v.L...)
			} else {
				args = append(args, c.evalInt(e.Args[i]))
			}
		}
		return mathInt(App("sr_"+rs.Name, SInt, args...))
	}
	if rs := c.tr.top.recSpecs[e.Name]; rs != nil {
		if len(rs.Params) != len(e.Args) {
			c.fail(e, "@%s expects %d arguments", e.Name, len(rs.Params))
		}
		var args []*Term
		for _, a := range e.Args {
			args = append(args, c.evalInt(a))
		}
		return mathInt(App("rs_"+rs.Name, SInt, args...))
	}
	if sf := eng.specs[e.Name]; sf != nil {
		if len(sf.Params) != len(e.Args) {
			c.fail(e, "@%s expects %d arguments", e.Name, len(sf.Params))
		}
		if c.depth > 40 {
			c.fail(e, "spec expansion too deep (recursive spec?)")
		}
		n := *c
		n.depth++
		n.bound = map[string]SV{}
		for i, p := range sf.Params {
			n.bound[p] = c.eval(e.Args[i])
		}
		// spec bodies see names of the surrounding context only through parameters
		n.lookup = nil
		return n.eval(sf.Body)
	}
	if uf := eng.ufs[e.Name]; uf != nil {
		if len(uf.Args) != len(e.Args) {
			c.fail(e, "@%s expects %d arguments", e.Name, len(uf.Args))
		}
		c.tr.vc.DeclareUF("uf_"+uf.Name, uf.Args, uf.Res)
		var args []*Term
		for i, a := range e.Args {
			v := c.eval(a)
			switch uf.Args[i] {
			case SArr:
				if !v.Arr {
					c.fail(e, "argument %d of @%s must be arr(...)", i+1, e.Name)
				}
			case SBool:
				if !v.isBool() {
					c.fail(e, "argument %d of @%s must be boolean", i+1, e.Name)
				}
			default:
				if !v.isInt() {
					c.fail(e, "argument %d of @%s must be integer", i+1, e.Name)
				}
			}
			args = append(args, v.L[0])
		}
		t := App("uf_"+uf.Name, uf.Res, args...)
		if uf.Res == SBool {
			return mathBool(t)
		}
		return mathInt(t)
	}
	c.fail(e, "unknown spec function @%s", e.Name)
	return SV{}
}

func (c *SpecCtx) binary(e *Expr) SV {
	op := e.Name
	switch op {
	case "&&", "||", "==>", "<==>":
		lc := c
		if op == "==>" {
			n := *c
			n.assume = !c.assume
			lc = &n
		}
		a := lc.evalBool(e.Args[0])
		rc := c
		if op == "==>" {
			n := *c
			n.guards = append(append([]*Term{}, c.guards...), a)
			rc = &n
		} else if op != "&&" {
			n := *c
			n.guards = append(append([]*Term{}, c.guards...), tFalse) // no lazy instances below || and <==>
			rc = &n
		}
		b := rc.evalBool(e.Args[1])
		switch op {
		case "&&":
			return mathBool(And(a, b))
		case "||":
			return mathBool(Or(a, b))
		case "==>":
			return mathBool(Implies(a, b))
		default:
			return mathBool(Eq(a, b))
		}
	case "==", "!=":
		a, b := c.eval(e.Args[0]), c.eval(e.Args[1])
		if op == "==" && !c.assume && a.isInt() && b.isInt() {
			if w := c.tryModWitness(a.L[0], b.L[0]); w != nil {
				return mathBool(w)
			}
		}
		r := c.equal(e, a, b)
		if op == "!=" {
			r = Not(r)
		}
		return mathBool(r)
	}
	a := c.evalInt(e.Args[0])
	b := c.evalInt(e.Args[1])
	switch op {
	case "<":
		return mathBool(Lt(a, b))
	case "<=":
		return mathBool(Le(a, b))
	case ">":
		return mathBool(Gt(a, b))
	case ">=":
		return mathBool(Ge(a, b))
	case "+":
		return mathInt(Add(a, b))
	case "-":
		return mathInt(Sub(a, b))
	case "*":
		return mathInt(Mul(a, b))
	case "/":
		return mathInt(Div(a, b))
	case "%":
		return mathInt(Mod(a, b))
	case "**":
		k := b.IntConst()
		if k == nil || !k.IsInt64() || k.Int64() < 0 || k.Int64() > 4096 {
			c.fail(e, "exponent must be a small constant")
		}
		if base := a.IntConst(); base != nil {
			return mathInt(IntB(new(big.Int).Exp(base, k, nil)))
		}
		r := Int(1)
		for i := int64(0); i < k.Int64(); i++ {
			r = Mul(r, a)
		}
		return mathInt(r)
	case "<<":
		k := b.IntConst()
		if k == nil || !k.IsInt64() {
			c.fail(e, "shift count must be constant in contracts")
		}
		return mathInt(Mul(a, Pow2(uint(k.Int64()))))
	case ">>":
		k := b.IntConst()
		if k == nil || !k.IsInt64() {
			c.fail(e, "shift count must be constant in contracts")
		}
		return mathInt(Div(a, Pow2(uint(k.Int64()))))
	case "&":
		k := b.IntConst()
		if k == nil {
			c.fail(e, "mask must be constant in contracts")
		}
		// exact for non-negative a and masks of the form 2^n-1
		n := k.BitLen()
		full := new(big.Int).Sub(new(big.Int).Lsh(big.NewInt(1), uint(n)), big.NewInt(1))
		if full.Cmp(k) != 0 {
			c.fail(e, "only masks 2^n-1 are supported in contracts")
		}
		return mathInt(Mod(a, Pow2(uint(n))))
	}
	c.fail(e, "operator %s not supported in contracts", op)
	return SV{}
}

func (c *SpecCtx) equal(e *Expr, a, b SV) *Term {
	if a.IsNil && b.IsNil {
		return tTrue
	}
	if b.IsNil {
		a, b = b, a
	}
	if a.IsNil {
		if b.T == nil {
			c.fail(e, "nil compared with untyped value")
		}
		return Eq(b.L[0], Int(0))
	}
	if a.isBool() && b.isBool() {
		return Eq(a.L[0], b.L[0])
	}
	if a.isInt() && b.isInt() {
		return Eq(a.L[0], b.L[0])
	}
	if len(a.L) != len(b.L) || len(a.L) == 0 {
		c.fail(e, "cannot compare %v and %v", a.T, b.T)
	}
	var cs []*Term
	for i := range a.L {
		cs = append(cs, Eq(a.L[i], b.L[i]))
	}
	return And(cs...)
}

func (c *SpecCtx) quant(e *Expr) SV {
	n := *c
	n.bound = map[string]SV{}
	for k, v := range c.bound {
		n.bound[k] = v
	}
	var vars []*Term
	c.tr.eng.qctr++
	for _, name := range e.Vars {
		s := Sym(fmt.Sprintf("%s!b%d", name, c.tr.eng.qctr), SInt)
		vars = append(vars, s)
		n.bound[name] = mathInt(s)
	}
	var rng *Term = tTrue
	if e.Args[0] != nil {
		lo, hi := n.evalInt(e.Args[0]), n.evalInt(e.Args[1])
		var cs []*Term
		for _, v := range vars {
			cs = append(cs, Le(lo, v), Lt(v, hi))
		}
		rng = And(cs...)
	}
	// small constant ranges are expanded: no quantifier, no instantiation problem
	if e.Args[0] != nil && len(vars) == 1 {
		lo, hi := c.evalInt(e.Args[0]).IntConst(), c.evalInt(e.Args[1]).IntConst()
		if lo != nil && hi != nil && lo.IsInt64() && hi.IsInt64() && hi.Int64()-lo.Int64() <= 80 {
			var parts []*Term
			for k := lo.Int64(); k < hi.Int64(); k++ {
				m := *c
				m.bound = map[string]SV{}
				for kk, v := range c.bound {
					m.bound[kk] = v
				}
				m.bound[e.Vars[0]] = mathInt(Int(k))
				parts = append(parts, m.evalBool(e.Args[2]))
			}
			if e.Op == "forall" {
				return mathBool(And(parts...))
			}
			return mathBool(Or(parts...))
		}
	}
	var sides []*Term
	n.sides = &sides
	n.inQuant = true
	body := n.evalBool(e.Args[2])
	if e.Op == "forall" {
		if c.assume {
			if e.Args[0] != nil && len(vars) == 1 && c.tr != nil && c.tr.top != nil && (!c.inQuant || os.Getenv("GOCV_LAZYNEST") != "") {
				c.registerLazy(e)
			}
			return mathBool(Forall(vars, Implies(rng, And(And(sides...), body))))
		}
		return mathBool(Forall(vars, Implies(And(rng, And(sides...)), body)))
	}
	if c.assume {
		return mathBool(Exists(vars, And(rng, And(sides...), body)))
	}
	ex := Exists(vars, And(rng, body))
	if e.Args[0] != nil && len(vars) == 1 {
		// witness hint: the last index of the range is the usual witness in loop steps
		lo, hi := c.evalInt(e.Args[0]), c.evalInt(e.Args[1])
		m := *c
		m.bound = map[string]SV{}
		for k, v := range c.bound {
			m.bound[k] = v
		}
		m.bound[e.Vars[0]] = mathInt(Sub(hi, Int(1)))
		inst := m.evalBool(e.Args[2])
		alts := []*Term{And(Lt(lo, hi), inst)}
		// further witness hints: index terms the code itself used
		for _, cand := range c.tr.top.idxCands {
			m2 := *c
			m2.bound = map[string]SV{}
			for k, v := range c.bound {
				m2.bound[k] = v
			}
			m2.bound[e.Vars[0]] = mathInt(cand)
			alts = append(alts, And(Le(lo, cand), Lt(cand, hi), m2.evalBool(e.Args[2])))
		}
		alts = append(alts, ex)
		return mathBool(Or(alts...))
	}
	return mathBool(ex)
}

// lvals evaluates a modifies-clause item; the typing facts of the cells it reads on the way
// (e.g. the slice header whose elements are named) are assumed.
func (c *SpecCtx) lvals(e *Expr) []cellRange {
	var sides []*Term
	n := *c
	n.sides = &sides
	n.assume = true
	r := n.evalLval(e)
	for _, s := range sides {
		c.tr.vc.Assume(s)
	}
	return r
}

// evalLval evaluates a modifies-clause item into cell ranges.
func (c *SpecCtx) evalLval(e *Expr) []cellRange {
	if e.Op == "slice" {
		s := c.sliceOf(e)
		et := s.T.Underlying().(*types.Slice).Elem()
		es := sizeOf(et)
		r := cellRange{Obj: s.L[0], Lo: s.L[1], Hi: Add(s.L[1], Mul(s.L[2], Int(int64(es))))}
		if lay := layoutOf(et); es == 1 && lay.N() == 1 && (lay.Leaves[0].K == LInt || lay.Leaves[0].K == LBool) {
			r.ElemTag = leafTag(lay.Leaves[0])
		}
		return []cellRange{r}
	}
	if e.Op == "un" && e.Name == "*" {
		p := c.eval(e.Args[0])
		pt, ok := p.T.Underlying().(*types.Pointer)
		if !ok {
			c.fail(e, "modifies *x: x must be a pointer")
		}
		return []cellRange{{Obj: p.L[0], Lo: p.L[1], Hi: Add(p.L[1], Int(int64(sizeOf(pt.Elem())))), T: pt.Elem()}}
	}
	v := c.eval(e)
	if v.Addr != nil {
		return []cellRange{{Obj: v.Addr[0], Lo: v.Addr[1], Hi: Add(v.Addr[1], Int(int64(sizeOf(v.T)))), T: v.T}}
	}
	if v.T == nil {
		c.fail(e, "modifies: not a location: %s", e)
	}
	switch t := v.T.Underlying().(type) {
	case *types.Pointer:
		return []cellRange{{Obj: v.L[0], Lo: v.L[1], Hi: Add(v.L[1], Int(int64(sizeOf(t.Elem())))), T: t.Elem()}}
	case *types.Slice:
		es := sizeOf(t.Elem())
		return []cellRange{{Obj: v.L[0], Lo: v.L[1], Hi: Add(v.L[1], Mul(v.L[2], Int(int64(es))))}}
	}
	c.fail(e, "modifies: not a location: %s", e)
	return nil
}

// ---------- contexts ----------

func svOf(v Val) SV { return SV{T: v.T, L: v.L} }

// calleeCtx binds a callee's parameter and result names to actual values.
func (tr *FnTr) calleeCtx(f *ssa.Function, args []Val, results []Val, st, old State) *SpecCtx {
	return tr.calleeCtxInfo(infoOf(tr.eng, f), args, results, st, old)
}

func (tr *FnTr) calleeCtxInfo(f *calleeInfo, args []Val, results []Val, st, old State) *SpecCtx {
	c := tr.calleeCtxInfo0(f, args, results, st, old)
	c.pkg = f.pkg
	return c
}

func (tr *FnTr) calleeCtxInfo0(f *calleeInfo, args []Val, results []Val, st, old State) *SpecCtx {
	names := map[string]SV{}
	for i, p := range f.params {
		if i < len(args) {
			if p != "" && p != "_" {
				names[p] = svOf(args[i])
				names[p+"0"] = svOf(args[i])
			}
			names[fmt.Sprintf("arg%d", i)] = svOf(args[i])
		}
	}
	if results != nil {
		sig := f.sig
		for i := 0; i < sig.Results().Len() && i < len(results); i++ {
			if n := sig.Results().At(i).Name(); n != "" && n != "_" {
				names[n] = svOf(results[i])
			}
			names[fmt.Sprintf("result%d", i)] = svOf(results[i])
		}
		if len(results) > 0 {
			names["result"] = svOf(results[0])
		}
	}
	return &SpecCtx{tr: tr, st: st, old: old, lookup: func(n string) (SV, bool) { v, ok := names[n]; return v, ok }}
}

// specCtxAt builds a context for a program point inside the function: phi overrides first,
// then parameters, then locals reachable through the dominator chain of block b.
func (tr *FnTr) specCtxAt(st State, phis map[*ssa.Phi]Val, b *ssa.BasicBlock) *SpecCtx {
	lookup := func(name string) (SV, bool) {
		for p, v := range phis {
			if p.Comment == name {
				return svOf(v), true
			}
			// range loops: at the header the key variable denotes the index of the next
			// iteration, i.e. the number of completed iterations
			if p.Comment == "rangeindex" && p.Block() == b {
				if l := tr.hdrLoop[b]; l != nil && (l.keyName == name || name == "iter") {
					return SV{T: v.T, L: []*Term{Add(v.L[0], Int(1))}}, true
				}
			}
		}
		if v, ok := tr.allocNamed(name); ok {
			return v, true
		}
		if v, ok := tr.localAt(name, b); ok {
			return v, true
		}
		for i, p := range tr.fn.Params {
			if p.Name() == name {
				return svOf(tr.params[i]), true
			}
		}
		if len(name) > 1 && name[len(name)-1] == '0' {
			for i, p := range tr.fn.Params {
				if p.Name() == name[:len(name)-1] {
					return svOf(tr.params[i]), true
				}
			}
		}
		for i, p := range tr.fn.FreeVars {
			if p.Name() == name {
				return svOf(tr.free[i]), true
			}
		}
		return SV{}, false
	}
	return &SpecCtx{tr: tr, st: st, old: tr.top.entry, lookup: lookup}
}

// allocNamed: variables that live in memory (address taken / captured) are always read
// from the current memory, never from a stale register copy.
func (tr *FnTr) allocNamed(name string) (SV, bool) {
	for _, blk := range tr.fn.Blocks {
		for _, in := range blk.Instrs {
			if a, ok := in.(*ssa.Alloc); ok && a.Comment == name {
				if v, ok := tr.env[a]; ok {
					pt := a.Type().Underlying().(*types.Pointer)
					return SV{T: pt.Elem(), Addr: &[2]*Term{v.L[0], v.L[1]}}, true
				}
			}
		}
	}
	return SV{}, false
}

// localAt resolves a local variable name at the head of block b.
func (tr *FnTr) localAt(name string, b *ssa.BasicBlock) (SV, bool) {
	for blk := b; blk != nil; blk = blk.Idom() {
		instrs := blk.Instrs
		for i := len(instrs) - 1; i >= 0; i-- {
			switch x := instrs[i].(type) {
			case *ssa.DebugRef:
				id, ok := x.Expr.(*ast.Ident)
				if !ok || id.Name != name {
					continue
				}
				if blk == b {
					continue // at the head of b nothing of b has executed yet
				}
				v, ok := tr.env[x.X]
				if !ok {
					if _, isC := x.X.(*ssa.Const); isC {
						v = tr.val(x.X)
					} else if _, isG := x.X.(*ssa.Global); isG {
						v = tr.val(x.X)
					} else {
						continue
					}
				}
				if x.IsAddr {
					pt := x.X.Type().Underlying().(*types.Pointer)
					return SV{T: pt.Elem(), Addr: &[2]*Term{v.L[0], v.L[1]}}, true
				}
				return svOf(v), true
			case *ssa.Phi:
				if x.Comment == name && blk != b {
					if v, ok := tr.env[x]; ok {
						return svOf(v), true
					}
				}
			case *ssa.Alloc:
				if x.Comment == name {
					if v, ok := tr.env[x]; ok {
						pt := x.Type().Underlying().(*types.Pointer)
						return SV{T: pt.Elem(), Addr: &[2]*Term{v.L[0], v.L[1]}}, true
					}
				}
			}
		}
	}
	// allocs for named results / captured variables live in the entry block
	for _, in := range tr.fn.Blocks[0].Instrs {
		if a, ok := in.(*ssa.Alloc); ok && a.Comment == name {
			if v, ok := tr.env[a]; ok {
				pt := a.Type().Underlying().(*types.Pointer)
				return SV{T: pt.Elem(), Addr: &[2]*Term{v.L[0], v.L[1]}}, true
			}
		}
	}
	return SV{}, false
}

// registerLazy: an assumed bounded forall is additionally instantiated at every index term
// the code uses (E-matching on arithmetic index terms is unreliable).
func (c *SpecCtx) registerLazy(e *Expr) {
	cc := *c
	cc.bound = map[string]SV{}
	for k, v := range c.bound {
		cc.bound[k] = v
	}
	guards := append([]*Term{}, c.guards...)
	for _, g := range guards {
		if g.IsFalse() {
			return
		}
	}
	if c.guard != nil {
		guards = append(guards, c.guard)
	}
	top := c.tr.top
	inst := func(t *Term) *Term {
		m := cc
		m.bound = map[string]SV{}
		for k, v := range cc.bound {
			m.bound[k] = v
		}
		var sides []*Term
		m.sides = &sides
		m.bound[e.Vars[0]] = mathInt(t)
		lo, hi := m.evalInt(e.Args[0]), m.evalInt(e.Args[1])
		body := m.evalBool(e.Args[2])
		return Implies(And(And(guards...), Le(lo, t), Lt(t, hi)), And(And(sides...), body))
	}
	top.lazy = append(top.lazy, inst)
	for _, t := range top.idxCands {
		top.vc.Assume(inst(t))
	}
}

// tryModWitness: a goal (X mod m) == 0 with a large constant modulus is restated as
// X = m*K + Rest && Rest = 0 with K, Rest synthesised by polynomial normalisation.
func (c *SpecCtx) tryModWitness(a, b *Term) *Term {
	if z := a.IntConst(); z != nil && z.Sign() == 0 {
		a, b = b, a
	}
	z := b.IntConst()
	if z == nil || z.Sign() != 0 || a.Op != "mod" {
		return nil
	}
	m := a.Args[1].IntConst()
	if m == nil || m.BitLen() <= 64 {
		return nil
	}
	k, rest, ok, why := modWitness(a.Args[0], m, c.tr.top.monoDefs)
	if !ok {
		c.tr.note("mod-witness tactic failed: " + why)
		return nil
	}
	x := a.Args[0]
	// two separate obligations: Rest = 0 needs the meaning of div (ranges) but no algebra;
	// the identity X = m*K + Rest is pure linear algebra over the div terms and the limb
	// products, so it is checked with both abstracted to uninterpreted symbols.
	c.tr.vc.pendingIdentity = append(c.tr.vc.pendingIdentity, Eq(x, mk("+", SInt, mk("*", SInt, IntB(m), k), rest)))
	return Eq(rest, Int(0))
}
