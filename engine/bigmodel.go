package main

// Trusted model of a fragment of math/big (DESIGN A.5): a big.Int (and gocoin's Number,
// which embeds one at offset 0) is a mathematical integer held in cell 0 of its location.
// Div/Mod are Euclidean as documented; Quo/Rem truncated.

import (
	"go/token"
	"go/types"

	"golang.org/x/tools/go/ssa"
)

func (tr *FnTr) bigGet(p Val, x ssa.Value) *Term {
	tr.check("nil", Ne(p.L[0], Int(0)), posOf(x))
	return Select(Select(tr.st.Mem, p.L[0]), p.L[1])
}

func (tr *FnTr) bigSet(p Val, v *Term, x ssa.Value) {
	tr.check("nil", Ne(p.L[0], Int(0)), posOf(x))
	tr.writeCheck(p.L[0], p.L[1], Add(p.L[1], Int(1)))
	v = tr.vc.Def("big", v)
	inner := Store(Select(tr.st.Mem, p.L[0]), p.L[1], v)
	inner.Name = "bool" // cell 0 of a big.Int is its `neg bool` field: never overlaps bytes or words
	tr.st.Mem = tr.vc.Def("mem", Store(tr.st.Mem, p.L[0], inner))
}

// pow2UF: 2^n for a symbolic n >= 0
func (tr *FnTr) pow2Term(n *Term) *Term {
	if c := n.IntConst(); c != nil && c.IsInt64() && c.Int64() >= 0 && c.Int64() < 100000 {
		return Pow2(uint(c.Int64()))
	}
	tr.vc.DeclareUF("pow2", []Sort{SInt}, SInt)
	if !tr.vc.declared["pow2!ax"] {
		tr.vc.declared["pow2!ax"] = true
		k := Sym("k!q", SInt)
		tr.vc.Assume(Eq(App("pow2", SInt, Int(0)), Int(1)))
		tr.vc.Assume(Forall([]*Term{k}, Implies(Le(Int(0), k), And(Eq(App("pow2", SInt, Add(k, Int(1))), Mul(App("pow2", SInt, k), Int(2))), Le(Int(1), App("pow2", SInt, k)))), App("pow2", SInt, k)))
	}
	return App("pow2", SInt, n)
}

// beBytes: the big-endian value of a byte slice in the current memory
func (tr *FnTr) beBytes(s Val) *Term {
	u8 := leafTag(Leaf{K: LInt, B: types.Typ[types.Uint8]})
	arr := tr.vc.Def("be_arr", Select(readThrough(tr.st.Mem, s.L[0], u8, 0), s.L[0]))
	if c := s.L[2].IntConst(); c != nil && c.IsInt64() && c.Int64() <= 80 {
		n := int(c.Int64())
		var parts []*Term
		for i := 0; i < n; i++ {
			b := Select(arr, Add(s.L[1], Int(int64(i))))
			tr.vc.Assume(And(Le(Int(0), b), Le(b, Int(255))))
			parts = append(parts, Mul(b, Pow2(uint(8*(n-1-i)))))
		}
		if len(parts) == 0 {
			return Int(0)
		}
		return Add(parts...)
	}
	tr.vc.DeclareUF("bebytes", []Sort{SArr, SInt, SInt}, SInt)
	v := tr.vc.Def("be", App("bebytes", SInt, arr, s.L[1], s.L[2]))
	tr.vc.Assume(And(Le(Int(0), v), Implies(Eq(s.L[2], Int(0)), Eq(v, Int(0)))))
	// a value of at most 32 bytes is below 2^256
	tr.vc.Assume(Implies(Le(s.L[2], Int(32)), Lt(v, Pow2(256))))
	return v
}

func init() {
	m := func(name string, f func(tr *FnTr, x ssa.Value, a []Val) Val, effects [2]bool) {
		full := "math/big.(*Int)." + name
		libModels[full] = func(tr *FnTr, x ssa.Value, args []Val, cc *ssa.CallCommon) Val {
			tr.usedModel("math/big.Int as a mathematical integer (" + name + ")")
			return f(tr, x, args)
		}
		libEffects[full] = effects
	}
	ret0 := func(a []Val) Val { return Val{L: []*Term{a[0].L[0], a[0].L[1]}} }
	bin := func(op func(tr *FnTr, x, y *Term, v ssa.Value) *Term) func(tr *FnTr, x ssa.Value, a []Val) Val {
		return func(tr *FnTr, x ssa.Value, a []Val) Val {
			tr.bigSet(a[0], op(tr, tr.bigGet(a[1], x), tr.bigGet(a[2], x), x), x)
			return ret0(a)
		}
	}
	w := [2]bool{true, false}
	m("Add", bin(func(tr *FnTr, x, y *Term, v ssa.Value) *Term { return Add(x, y) }), w)
	m("Sub", bin(func(tr *FnTr, x, y *Term, v ssa.Value) *Term { return Sub(x, y) }), w)
	m("Mul", bin(func(tr *FnTr, x, y *Term, v ssa.Value) *Term { return tr.mulTerm(x, y) }), w)
	m("Div", bin(func(tr *FnTr, x, y *Term, v ssa.Value) *Term {
		tr.check("div", Ne(y, Int(0)), posOf(v))
		return Div(x, y)
	}), w)
	m("Mod", bin(func(tr *FnTr, x, y *Term, v ssa.Value) *Term {
		tr.check("div", Ne(y, Int(0)), posOf(v))
		return Mod(x, y)
	}), w)
	m("Set", func(tr *FnTr, x ssa.Value, a []Val) Val { tr.bigSet(a[0], tr.bigGet(a[1], x), x); return ret0(a) }, w)
	m("Neg", func(tr *FnTr, x ssa.Value, a []Val) Val { tr.bigSet(a[0], Neg(tr.bigGet(a[1], x)), x); return ret0(a) }, w)
	m("SetInt64", func(tr *FnTr, x ssa.Value, a []Val) Val { tr.bigSet(a[0], a[1].L[0], x); return ret0(a) }, w)
	m("SetUint64", func(tr *FnTr, x ssa.Value, a []Val) Val { tr.bigSet(a[0], a[1].L[0], x); return ret0(a) }, w)
	m("SetBytes", func(tr *FnTr, x ssa.Value, a []Val) Val { tr.bigSet(a[0], tr.beBytes(a[1]), x); return ret0(a) }, w)
	m("Lsh", func(tr *FnTr, x ssa.Value, a []Val) Val {
		tr.bigSet(a[0], tr.mulTerm(tr.bigGet(a[1], x), tr.pow2Term(a[2].L[0])), x)
		return ret0(a)
	}, w)
	m("Rsh", func(tr *FnTr, x ssa.Value, a []Val) Val {
		tr.bigSet(a[0], Div(tr.bigGet(a[1], x), tr.pow2Term(a[2].L[0])), x)
		return ret0(a)
	}, w)
	ro := [2]bool{false, false}
	m("Sign", func(tr *FnTr, x ssa.Value, a []Val) Val {
		v := tr.bigGet(a[0], x)
		return Val{L: []*Term{Ite(Lt(v, Int(0)), Int(-1), Ite(Eq(v, Int(0)), Int(0), Int(1)))}}
	}, ro)
	m("Cmp", func(tr *FnTr, x ssa.Value, a []Val) Val {
		p, q := tr.bigGet(a[0], x), tr.bigGet(a[1], x)
		return Val{L: []*Term{Ite(Lt(p, q), Int(-1), Ite(Eq(p, q), Int(0), Int(1)))}}
	}, ro)
	m("Bit", func(tr *FnTr, x ssa.Value, a []Val) Val {
		v := tr.bigGet(a[0], x)
		// defined for non-negative values here
		return Val{L: []*Term{Mod(Div(Ite(Lt(v, Int(0)), Neg(v), v), tr.pow2Term(a[1].L[0])), Int(2))}}
	}, ro)
	m("Int64", func(tr *FnTr, x ssa.Value, a []Val) Val {
		return Val{L: []*Term{wrap(tr.bigGet(a[0], x), types.Typ[types.Int64])}}
	}, ro)
	m("Uint64", func(tr *FnTr, x ssa.Value, a []Val) Val {
		return Val{L: []*Term{wrap(tr.bigGet(a[0], x), types.Typ[types.Uint64])}}
	}, ro)
	m("IsInt64", func(tr *FnTr, x ssa.Value, a []Val) Val {
		return Val{L: []*Term{inRange(tr.bigGet(a[0], x), types.Typ[types.Int64])}}
	}, ro)
	m("BitLen", func(tr *FnTr, x ssa.Value, a []Val) Val {
		v := tr.bigGet(a[0], x)
		n := tr.vc.Fresh("bitlen", SInt)
		tr.vc.Assume(And(Le(Int(0), n), Eq(Eq(n, Int(0)), Eq(v, Int(0)))))
		tr.vc.Assume(Implies(And(Le(Int(0), v), Lt(v, Pow2(256))), Le(n, Int(256))))
		return Val{L: []*Term{n}}
	}, ro)
	// Bytes: a fresh slice holding the big-endian magnitude: its length, the absence of a
	// leading zero byte and the value read back are modelled
	m("Bytes", func(tr *FnTr, x ssa.Value, a []Val) Val {
		v := tr.bigGet(a[0], x)
		obj := tr.newObject("bigbytes")
		n := tr.vc.Fresh("bigbytes_len", SInt)
		tr.vc.Assume(And(Le(Int(0), n), Le(n, maxLen), Eq(Eq(n, Int(0)), Eq(v, Int(0)))))
		for _, k := range []int64{1, 2, 3, 4, 8, 20, 32, 33} {
			// |v| < 256^k  <=>  len <= k
			abs := Ite(Lt(v, Int(0)), Neg(v), v)
			tr.vc.Assume(Eq(Lt(abs, Pow2(uint(8*k))), Le(n, Int(k))))
		}
		na := tr.vc.Fresh("bigbytes_arr", SArr)
		tr.st.Mem = tr.vc.Def("mem", Store(tr.st.Mem, obj, na))
		// minimal encoding: no leading zero byte
		tr.vc.Assume(Implies(Lt(Int(0), n), And(Le(Int(1), Select(na, Int(0))), Le(Select(na, Int(0)), Int(255)))))
		// the bytes read back as the same magnitude
		tr.vc.DeclareUF("bebytes", []Sort{SArr, SInt, SInt}, SInt)
		tr.vc.Assume(Eq(App("bebytes", SInt, na, Int(0), n), Ite(Lt(v, Int(0)), Neg(v), v)))
		return Val{L: []*Term{obj, Int(0), n, n}}
	}, [2]bool{false, true})
	// big.NewInt
	libModels["math/big.NewInt"] = func(tr *FnTr, x ssa.Value, args []Val, cc *ssa.CallCommon) Val {
		tr.usedModel("math/big.Int as a mathematical integer (NewInt)")
		obj := tr.newObject("bigint")
		tr.st.Mem = tr.vc.Def("mem", Store(tr.st.Mem, obj, Store(zeroArr, Int(0), args[0].L[0])))
		return Val{L: []*Term{obj, Int(0)}}
	}
	libEffects["math/big.NewInt"] = [2]bool{false, true}
	_ = token.NoPos
}
