package main

// Flattening of Go types into leaf cells (DESIGN A.3). A value in a register is the list
// of its leaves; an object in memory is an array of cells, one per leaf.

import (
	"fmt"
	"go/types"
	"math/big"
)

type LeafKind int

const (
	LInt    LeafKind = iota // integer of basic type B
	LBool                   // bool (Bool in registers, 0/1 in memory)
	LObj                    // object id of a pointer/slice/string (0 = nil)
	LOff                    // cell offset
	LLen                    // slice/string length
	LCap                    // slice capacity
	LOpaque                 // interface, map, chan, func, float, complex, unsafe.Pointer
)

type Leaf struct {
	K    LeafKind
	B    *types.Basic // for LInt
	Path string
	Str  bool // LObj of a string (lives in the immutable string store)
	PT   string // for reference leaves: the static pointer/slice type (cells of different types never overlap)
}

type Layout struct {
	Leaves []Leaf
}

func (l *Layout) N() int { return len(l.Leaves) }

const maxLeaves = 70000

var layoutCache = map[types.Type]*Layout{}

func layoutOf(T types.Type) *Layout {
	if l, ok := layoutCache[T]; ok {
		return l
	}
	l := &Layout{}
	buildLayout(T, "", l)
	layoutCache[T] = l
	return l
}

var sizeCache = map[types.Type]int{}

// sizeOf is the number of cells of a value of type T (computed without materialising
// the leaf list, so that structs with very large arrays can still be addressed).
func sizeOf(T types.Type) int {
	if n, ok := sizeCache[T]; ok {
		return n
	}
	n := 0
	switch t := T.Underlying().(type) {
	case *types.Basic:
		if t.Info()&types.IsString != 0 {
			n = 3
		} else {
			n = 1
		}
	case *types.Pointer:
		n = 2
	case *types.Slice:
		n = 4
	case *types.Struct:
		for i := 0; i < t.NumFields(); i++ {
			n += sizeOf(t.Field(i).Type())
		}
	case *types.Array:
		n = int(t.Len()) * sizeOf(t.Elem())
	case *types.Tuple:
		for i := 0; i < t.Len(); i++ {
			n += sizeOf(t.At(i).Type())
		}
	default:
		n = 1
	}
	sizeCache[T] = n
	return n
}

func buildLayout(T types.Type, path string, l *Layout) {
	switch t := T.Underlying().(type) {
	case *types.Basic:
		switch {
		case t.Info()&types.IsBoolean != 0:
			l.Leaves = append(l.Leaves, Leaf{K: LBool, Path: path})
		case t.Info()&types.IsInteger != 0:
			l.Leaves = append(l.Leaves, Leaf{K: LInt, B: t, Path: path})
		case t.Info()&types.IsString != 0:
			l.Leaves = append(l.Leaves, Leaf{K: LObj, Path: path + ".sobj", Str: true}, Leaf{K: LOff, Path: path + ".soff"}, Leaf{K: LLen, Path: path + ".slen"})
		default:
			l.Leaves = append(l.Leaves, Leaf{K: LOpaque, Path: path})
		}
	case *types.Pointer:
		pt := t.String()
		l.Leaves = append(l.Leaves, Leaf{K: LObj, Path: path + ".obj", PT: pt}, Leaf{K: LOff, Path: path + ".off", PT: pt})
	case *types.Slice:
		pt := t.String()
		l.Leaves = append(l.Leaves, Leaf{K: LObj, Path: path + ".obj", PT: pt}, Leaf{K: LOff, Path: path + ".off", PT: pt},
			Leaf{K: LLen, Path: path + ".len", PT: pt}, Leaf{K: LCap, Path: path + ".cap", PT: pt})
	case *types.Struct:
		for i := 0; i < t.NumFields(); i++ {
			buildLayout(t.Field(i).Type(), path+"."+t.Field(i).Name(), l)
		}
	case *types.Array:
		n := int(t.Len())
		es := sizeOf(t.Elem())
		if n*es > maxLeaves || len(l.Leaves)+n*es > maxLeaves {
			panic(unsupported(fmt.Sprintf("array value too large to flatten: %s", T)))
		}
		el := layoutOf(t.Elem())
		for i := 0; i < n; i++ {
			for _, lf := range el.Leaves {
				lf.Path = fmt.Sprintf("%s[%d]%s", path, i, lf.Path)
				l.Leaves = append(l.Leaves, lf)
			}
		}
	case *types.Tuple:
		for i := 0; i < t.Len(); i++ {
			buildLayout(t.At(i).Type(), fmt.Sprintf("%s#%d", path, i), l)
		}
	default: // interface, map, chan, signature, type param
		l.Leaves = append(l.Leaves, Leaf{K: LOpaque, Path: path})
	}
}

// fieldOffset returns the cell offset of field i of struct type T.
func fieldOffset(st *types.Struct, i int) int {
	off := 0
	for k := 0; k < i; k++ {
		off += sizeOf(st.Field(k).Type())
	}
	return off
}

// tupleOffset returns the leaf offset of component i.
func tupleOffset(tp *types.Tuple, i int) int {
	off := 0
	for k := 0; k < i; k++ {
		off += sizeOf(tp.At(k).Type())
	}
	return off
}

type unsupported string

func (u unsupported) Error() string { return string(u) }

// integer type ranges ------------------------------------------------------

func intBits(b *types.Basic) (bits uint, signed bool) {
	switch b.Kind() {
	case types.Int8:
		return 8, true
	case types.Int16:
		return 16, true
	case types.Int32:
		return 32, true
	case types.Int64, types.Int, types.UntypedInt, types.UntypedRune:
		return 64, true
	case types.Uint8:
		return 8, false
	case types.Uint16:
		return 16, false
	case types.Uint32:
		return 32, false
	case types.Uint64, types.Uint, types.Uintptr:
		return 64, false
	}
	return 64, true
}

func intRange(b *types.Basic) (lo, hi *big.Int) {
	bits, signed := intBits(b)
	one := big.NewInt(1)
	if signed {
		hi = new(big.Int).Lsh(one, bits-1)
		lo = new(big.Int).Neg(hi)
		hi.Sub(hi, one)
		return
	}
	lo = big.NewInt(0)
	hi = new(big.Int).Lsh(one, bits)
	hi.Sub(hi, one)
	return
}

func inRange(t *Term, b *types.Basic) *Term {
	lo, hi := intRange(b)
	return And(Le(IntB(lo), t), Le(t, IntB(hi)))
}

// wrap reduces a mathematical integer to the value range of b (two's complement).
func wrap(t *Term, b *types.Basic) *Term {
	bits, signed := intBits(b)
	m := Pow2(bits)
	if !signed {
		return Mod(t, m)
	}
	h := Pow2(bits - 1)
	return Sub(Mod(Add(t, h), m), h)
}

func basicOf(T types.Type) *types.Basic {
	b, _ := T.Underlying().(*types.Basic)
	return b
}

func isInteger(T types.Type) bool {
	b := basicOf(T)
	return b != nil && b.Info()&types.IsInteger != 0
}
func isBoolean(T types.Type) bool {
	b := basicOf(T)
	return b != nil && b.Info()&types.IsBoolean != 0
}
func isString(T types.Type) bool {
	b := basicOf(T)
	return b != nil && b.Info()&types.IsString != 0
}
func isFloat(T types.Type) bool {
	b := basicOf(T)
	return b != nil && b.Info()&(types.IsFloat|types.IsComplex) != 0
}

// maxLen is the standing assumption on slice/string lengths (amd64 address space).
var maxLen = Pow2(48)
