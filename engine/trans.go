package main

// Function translation: SSA CFG -> reachability-predicate VC (DESIGN A.1, A.2).

import (
	"os"
	"time"
	"fmt"
	"math/big"
	"go/ast"
	"go/token"
	"go/types"
	"sort"
	"strings"

	"golang.org/x/tools/go/ssa"
)

type Val struct {
	T types.Type
	L []*Term
}

type State struct {
	Reach *Term
	Mem   *Term
	Alloc *Term
	Locks *Term // ghost: lock counts per mutex address; never havocked by abstraction
	Ghost *Term // ghost: byte sequences written to hashers / buffers / writers (ghost.go)
}

type Edge struct {
	From, To *ssa.BasicBlock
	St       State
	Phis     []Val
	Snap     map[ssa.Value]Val // values defined in a loop being left, as of this edge
}

type excEdge struct {
	St State
}

type RetEdge struct {
	Pos     string
	St      State
	Results []Val
	Exc     bool
}

type Loop struct {
	Header  *ssa.BasicBlock
	Body    map[*ssa.BasicBlock]bool
	Ordinal int
	Parent  *Loop
	ct      *LoopContract
	keyName string // range loops: name of the key variable
	liveOut []ssa.Value
}

type deferred struct {
	call  *ssa.Defer
	reach *Term
}

type FnTr struct {
	genDeadline time.Time // refute mode: VC generation is abandoned after this instant
	eng     *Eng
	vc      *VC
	fn      *ssa.Function
	ct      *FuncContract
	top     *FnTr
	prefix  string
	env     map[ssa.Value]Val
	in      map[*ssa.BasicBlock][]*Edge
	st      State
	entry   State
	params  []Val
	free    []Val
	rets    []RetEdge
	loops   []*Loop
	loopOf  map[*ssa.BasicBlock]*Loop // innermost loop containing block
	hdrLoop map[*ssa.BasicBlock]*Loop
	defers  []deferred
	recovering bool
	excMode bool // inlined deferred closure run on the exceptional path: recover() != nil
	depth   int
	private map[*ssa.Alloc]bool
	privObjs []*Term
	curLoops []*loopFrame
	lockDepth map[string]*Term
	curInstr ssa.Instruction
	typedObjs []typedObj
	typedPtrs []typedObj
	lockSites [][2]*Term // mutex addresses locked/unlocked somewhere in the function
	fnFrame  []cellRange // declared modifies of the top-level function, evaluated at entry
	storeChecks bool     // recovering function with a frame: every write is checked against it
	monoDefs map[string][2]*Term
	lazy     []func(*Term) *Term
	idxCands []*Term // index terms used by the code: instantiation candidates for quantifiers
	recSpecs map[string]*SpecFunc
	refuteWrap bool      // bounded search with exact wrap-around arithmetic
	copyBound  int64
	refute   bool        // counterexample search: bounded unrolling, inlining, no quantifiers
	unrollK  int
	excEdges []excEdge   // refute mode: precise exceptional edges
	privAllocObj  map[*ssa.Alloc]*Term // private locals of the top-level function: object ids
	privAllocList []*ssa.Alloc
	usesMemo      map[string]bool
	owners        map[string][]objOwner // object id key -> every allocation site that may own it
	excSlots      []excSlot // proof mode: content of the result slots at every covered panic point
	stateRecs map[string]*SpecFunc
	globalSeen map[*ssa.Global]bool
	globalList []*ssa.Global // package variables this function mentions, in order of first mention
	panicsIfT *Term        // entry-state disjunction of the function's own panicsif clauses
	excLocks  []excLock    // proof mode: lock state at every panic point caught by a recovering defer
	recDefers []*ssa.Defer // the defer statements of the function whose closure calls recover()
	inlining map[*ssa.Function]bool
}

func (tr *FnTr) noteIndex(t *Term) {
	top := tr.top
	for _, c := range top.idxCands {
		if c.Key() == t.Key() {
			return
		}
	}
	top.idxCands = append(top.idxCands, t)
	if len(top.idxCands) > 16 {
		top.idxCands = top.idxCands[1:]
	}
	if len(top.lazy) <= 24 {
		for _, f := range top.lazy {
			top.vc.Assume(f(t))
		}
	}
}

// writeCheck: in a recovering function the frame must hold at every possible panic point,
// so each write is obliged to stay inside the declared frame or inside a fresh object.
func (tr *FnTr) writeCheck(obj, lo, hi *Term) {
	top := tr.top
	if !top.storeChecks {
		return
	}
	var in []*Term
	in = append(in, Ge(obj, top.entry.Alloc))
	for _, r := range top.fnFrame {
		in = append(in, And(Eq(obj, r.Obj), Le(r.Lo, lo), Le(hi, r.Hi)))
	}
	p := token.NoPos
	if tr.curInstr != nil {
		p = tr.curInstr.Pos()
	}
	tr.vc.Oblige(tr.prefix+"frame.store", "", Implies(tr.st.Reach, Or(in...)), tr.pos(p))
}

type loopFrame struct {
	loop     *Loop
	entry    State
	hdr      State
	phiHdr   map[*ssa.Phi]Val
	frame    []cellRange // declared modifies, evaluated at entry
}

type cellRange struct {
	Obj, Lo, Hi *Term // cells [Lo,Hi) of object Obj
	T           types.Type // if non-nil: the range is exactly one value of this type (for cell-type tags)
	ElemTag     string     // if set: every cell of the range has this cell type (elements of a slice of a basic type)
}

func (tr *FnTr) pos(p token.Pos) string {
	if !p.IsValid() {
		return ""
	}
	ps := tr.eng.fset.Position(p)
	return fmt.Sprintf("%s:%d", shortPath(ps.Filename), ps.Line)
}

func shortPath(p string) string {
	return strings.TrimPrefix(p, "/repo/")
}

func (tr *FnTr) unsupported(f string, a ...interface{}) {
	panic(unsupported(fmt.Sprintf(f, a...)))
}

// ---------- loop analysis ----------

func (tr *FnTr) analyzeLoops() {
	fn := tr.fn
	tr.loopOf = map[*ssa.BasicBlock]*Loop{}
	tr.hdrLoop = map[*ssa.BasicBlock]*Loop{}
	for _, b := range fn.Blocks {
		for _, s := range b.Succs {
			if s.Dominates(b) { // back edge b -> s
				l := tr.hdrLoop[s]
				if l == nil {
					l = &Loop{Header: s, Body: map[*ssa.BasicBlock]bool{s: true}}
					tr.hdrLoop[s] = l
					tr.loops = append(tr.loops, l)
				}
				// natural loop: nodes reaching b without passing s
				stack := []*ssa.BasicBlock{b}
				for len(stack) > 0 {
					x := stack[len(stack)-1]
					stack = stack[:len(stack)-1]
					if l.Body[x] {
						continue
					}
					l.Body[x] = true
					stack = append(stack, x.Preds...)
				}
			} else if !reachableWithoutBackEdge(s, b) {
				// fine: forward/cross edge
			}
		}
	}
	// nesting: parent = smallest strictly containing loop
	for _, l := range tr.loops {
		for _, m := range tr.loops {
			if m != l && m.Body[l.Header] && len(m.Body) > len(l.Body) {
				if l.Parent == nil || len(m.Body) < len(l.Parent.Body) {
					l.Parent = m
				}
			}
		}
	}
	for _, b := range fn.Blocks {
		for _, l := range tr.loops {
			if l.Body[b] {
				if cur := tr.loopOf[b]; cur == nil || len(l.Body) < len(cur.Body) {
					tr.loopOf[b] = l
				}
			}
		}
	}
	// ordinals: map to AST loops in source pre-order
	var astLoops []ast.Node
	if syn := fn.Syntax(); syn != nil {
		var body ast.Node
		switch s := syn.(type) {
		case *ast.FuncDecl:
			body = s.Body
		case *ast.FuncLit:
			body = s.Body
		}
		if body != nil {
			ast.Inspect(body, func(n ast.Node) bool {
				switch n.(type) {
				case *ast.ForStmt, *ast.RangeStmt:
					astLoops = append(astLoops, n)
				case *ast.FuncLit:
					return false
				}
				return true
			})
		}
	}
	used := map[int]bool{}
	for _, l := range tr.loops {
		best := -1
		for i, n := range astLoops {
			ok := true
			any := false
			for b := range l.Body {
				for _, in := range b.Instrs {
					if _, isPhi := in.(*ssa.Phi); isPhi {
						continue
					}
					if _, isDbg := in.(*ssa.DebugRef); isDbg {
						continue
					}
					p := in.Pos()
					if !p.IsValid() {
						continue
					}
					any = true
					if p < n.Pos() || p >= n.End() {
						ok = false
					}
				}
			}
			if ok && any {
				if best < 0 || astLoops[i].Pos() > astLoops[best].Pos() {
					best = i
				}
			}
		}
		if best >= 0 && !used[best] {
			l.Ordinal = best + 1
			used[best] = true
			if rs, ok := astLoops[best].(*ast.RangeStmt); ok {
				if id, ok := rs.Key.(*ast.Ident); ok {
					l.keyName = id.Name
				}
			}
		}
	}
	// loops not matched (goto loops): number after the AST loops in header order
	sort.SliceStable(tr.loops, func(i, j int) bool { return tr.loops[i].Header.Index < tr.loops[j].Header.Index })
	next := len(astLoops) + 1
	for _, l := range tr.loops {
		if l.Ordinal == 0 {
			l.Ordinal = next
			next++
		}
		if tr.ct != nil {
			l.ct = tr.ct.Loops[l.Ordinal]
		}
	}
}

func reachableWithoutBackEdge(a, b *ssa.BasicBlock) bool { return true }

func (tr *FnTr) computeLiveOut() {
	for _, l := range tr.loops {
		seen := map[ssa.Value]bool{}
		for b := range l.Body {
			for _, in := range b.Instrs {
				v, ok := in.(ssa.Value)
				if !ok {
					continue
				}
				refs := v.Referrers()
				if refs == nil {
					continue
				}
				for _, r := range *refs {
					if _, isDbg := r.(*ssa.DebugRef); isDbg {
						continue
					}
					if rb := r.Block(); rb != nil && !l.Body[rb] && !seen[v] {
						seen[v] = true
						l.liveOut = append(l.liveOut, v)
					}
				}
			}
		}
	}
}

// ---------- driving ----------

// run translates the whole function body from the given entry state.
func (tr *FnTr) run(st State) {
	tr.env0()
	tr.analyzeLoops()
	tr.computeLiveOut()
	tr.computePrivate()
	tr.in = map[*ssa.BasicBlock][]*Edge{}
	if len(tr.fn.Blocks) == 0 {
		tr.unsupported("function %s has no body", tr.fn)
	}
	entry := tr.fn.Blocks[0]
	tr.in[entry] = []*Edge{{To: entry, St: st}}
	all := map[*ssa.BasicBlock]bool{}
	for _, b := range tr.fn.Blocks {
		if b != tr.fn.Recover {
			all[b] = true
		}
	}
	tr.procRegion(all, nil)
}

func (tr *FnTr) env0() {
	if tr.env == nil {
		tr.env = map[ssa.Value]Val{}
	}
	for i, p := range tr.fn.Params {
		tr.env[p] = tr.params[i]
	}
	for i, f := range tr.fn.FreeVars {
		tr.env[f] = tr.free[i]
	}
}

// procRegion processes the blocks of a region (whole function if cur == nil, else the
// body of loop cur) in topological order, with directly nested loops collapsed.
func (tr *FnTr) procRegion(set map[*ssa.BasicBlock]bool, cur *Loop) {
	rep := func(b *ssa.BasicBlock) *ssa.BasicBlock {
		l := tr.loopOf[b]
		var top *Loop
		for l != nil && l != cur {
			top = l
			l = l.Parent
		}
		if top != nil {
			return top.Header
		}
		return b
	}
	indeg := map[*ssa.BasicBlock]int{}
	succs := map[*ssa.BasicBlock]map[*ssa.BasicBlock]bool{}
	var nodes []*ssa.BasicBlock
	seen := map[*ssa.BasicBlock]bool{}
	for _, b := range tr.fn.Blocks {
		if !set[b] {
			continue
		}
		r := rep(b)
		if !seen[r] {
			seen[r] = true
			nodes = append(nodes, r)
		}
	}
	for _, b := range tr.fn.Blocks {
		if !set[b] {
			continue
		}
		for _, s := range b.Succs {
			if !set[s] {
				continue
			}
			if cur != nil && s == cur.Header {
				continue // back edge of the current loop
			}
			ru, rv := rep(b), rep(s)
			if ru == rv {
				continue
			}
			if succs[ru] == nil {
				succs[ru] = map[*ssa.BasicBlock]bool{}
			}
			if !succs[ru][rv] {
				succs[ru][rv] = true
				indeg[rv]++
			}
		}
	}
	var ready []*ssa.BasicBlock
	for _, n := range nodes {
		if indeg[n] == 0 {
			ready = append(ready, n)
		}
	}
	done := 0
	for len(ready) > 0 {
		// pick lowest index for determinism
		sort.Slice(ready, func(i, j int) bool { return ready[i].Index < ready[j].Index })
		n := ready[0]
		ready = ready[1:]
		done++
		if l := tr.hdrLoop[n]; l != nil && l != cur {
			tr.procLoop(l)
		} else {
			tr.procBlock(n)
		}
		var ss []*ssa.BasicBlock
		for s := range succs[n] {
			ss = append(ss, s)
		}
		sort.Slice(ss, func(i, j int) bool { return ss[i].Index < ss[j].Index })
		for _, s := range ss {
			indeg[s]--
			if indeg[s] == 0 {
				ready = append(ready, s)
			}
		}
	}
	if done != len(nodes) {
		tr.unsupported("irreducible control flow in %s", tr.fn)
	}
}

// mergeEdges joins incoming edges into one state and phi values.
func (tr *FnTr) mergeEdges(b *ssa.BasicBlock, edges []*Edge) (State, []Val, bool) {
	var live []*Edge
	for _, e := range edges {
		if !e.St.Reach.IsFalse() {
			live = append(live, e)
		}
	}
	if len(live) == 0 {
		return State{}, nil, false
	}
	var st State
	var phis []Val
	n := len(live)
	last := live[n-1]
	st = last.St
	phis = last.Phis
	rs := []*Term{last.St.Reach}
	for i := n - 2; i >= 0; i-- {
		e := live[i]
		rs = append(rs, e.St.Reach)
		st.Mem = Ite(e.St.Reach, e.St.Mem, st.Mem)
		st.Alloc = Ite(e.St.Reach, e.St.Alloc, st.Alloc)
		st.Locks = Ite(e.St.Reach, e.St.Locks, st.Locks)
		st.Ghost = Ite(e.St.Reach, e.St.Ghost, st.Ghost)
		if len(e.Phis) > 0 {
			np := make([]Val, len(e.Phis))
			for k := range e.Phis {
				np[k] = tr.iteVal(e.St.Reach, e.Phis[k], phis[k])
			}
			phis = np
		}
	}
	// values leaving loops: merge the per-edge snapshots
	if last.Snap != nil {
		for v, lv := range last.Snap {
			merged := lv
			ok := true
			for i := n - 2; i >= 0; i-- {
				x, has := live[i].Snap[v]
				if !has {
					ok = false
					break
				}
				merged = tr.iteVal(live[i].St.Reach, x, merged)
			}
			if ok && n > 1 {
				tr.env[v] = tr.defVal(tr.vname(v)+"_lo", merged)
			} else if ok {
				tr.env[v] = lv
			}
		}
	}
	tag := fmt.Sprintf("b%d", b.Index)
	st.Reach = tr.vc.Def("reach_"+tag, Or(rs...))
	st.Mem = tr.vc.Def("mem_"+tag, st.Mem)
	st.Alloc = tr.vc.Def("alloc_"+tag, st.Alloc)
	st.Locks = tr.vc.Def("locks_"+tag, st.Locks)
	st.Ghost = tr.vc.Def("ghost_"+tag, st.Ghost)
	return st, phis, true
}

func (tr *FnTr) iteVal(c *Term, a, b Val) Val {
	if len(a.L) != len(b.L) {
		panic(fmt.Sprintf("iteVal: leaf mismatch %v vs %v", a.T, b.T))
	}
	out := Val{T: a.T, L: make([]*Term, len(a.L))}
	for i := range a.L {
		out.L[i] = Ite(c, a.L[i], b.L[i])
	}
	return out
}

func (tr *FnTr) defVal(base string, v Val) Val {
	out := Val{T: v.T, L: make([]*Term, len(v.L))}
	for i, t := range v.L {
		if len(v.L) == 1 {
			out.L[i] = tr.vc.Def(base, t)
		} else {
			out.L[i] = tr.vc.Def(fmt.Sprintf("%s_%d", base, i), t)
		}
		if out.L[i] != t {
			if k, ok := tr.eng.bits[t.Key()]; ok {
				tr.eng.bits[out.L[i].Key()] = k
			}
			if z, ok := tr.eng.negBit[t.Key()]; ok {
				tr.eng.negBit[out.L[i].Key()] = z
			}
		}
	}
	return out
}

func (tr *FnTr) vname(v ssa.Value) string {
	n := v.Name()
	if tr.depth > 0 {
		n = fmt.Sprintf("i%d_%s", tr.depth, n)
	}
	return n
}

func (tr *FnTr) procBlock(b *ssa.BasicBlock) {
	if d := tr.top.genDeadline; !d.IsZero() && time.Now().After(d) {
		panic(unsupported("bounded search: VC generation exceeded its time box"))
	}
	st, phis, ok := tr.mergeEdges(b, tr.in[b])
	if !ok {
		return
	}
	tr.st = st
	k := 0
	for _, in := range b.Instrs {
		if phi, isPhi := in.(*ssa.Phi); isPhi {
			tr.env[phi] = tr.defVal(tr.vname(phi), phis[k])
			k++
			continue
		}
		break
	}
	tr.procInstrs(b, k)
}

func (tr *FnTr) procInstrs(b *ssa.BasicBlock, from int) {
	for _, in := range b.Instrs[from:] {
		tr.curInstr = in
		if tr.st.Reach.IsFalse() {
			return
		}
		switch x := in.(type) {
		case *ssa.If:
			c := tr.val(x.Cond).L[0]
			tr.addEdge(b, b.Succs[0], And(tr.st.Reach, c))
			tr.addEdge(b, b.Succs[1], And(tr.st.Reach, Not(c)))
		case *ssa.Jump:
			tr.addEdge(b, b.Succs[0], tr.st.Reach)
		case *ssa.Return:
			var rs []Val
			for _, r := range x.Results {
				rs = append(rs, tr.val(r))
			}
			tr.rets = append(tr.rets, RetEdge{St: tr.st, Results: rs, Pos: tr.pos(x.Pos())})
		case *ssa.Panic:
			tr.panicEdge("explicit", tFalse, x.Pos())
		default:
			tr.instr(in)
		}
	}
}

// addEdge records the edge b->s with the current state and eagerly evaluated phi operands.
func (tr *FnTr) addEdge(b, s *ssa.BasicBlock, reach *Term) {
	if reach.IsFalse() {
		return
	}
	e := &Edge{From: b, To: s, St: State{Reach: reach, Mem: tr.st.Mem, Alloc: tr.st.Alloc, Locks: tr.st.Locks, Ghost: tr.st.Ghost}}
	// which predecessor index?
	idx := -1
	for i, p := range s.Preds {
		if p == b {
			idx = i
			break
		}
	}
	for _, in := range s.Instrs {
		phi, ok := in.(*ssa.Phi)
		if !ok {
			break
		}
		e.Phis = append(e.Phis, tr.val(phi.Edges[idx]))
	}
	for l := tr.loopOf[b]; l != nil; l = l.Parent {
		if l.Body[s] {
			break
		}
		for _, v := range l.liveOut {
			if x, ok := tr.env[v]; ok {
				if e.Snap == nil {
					e.Snap = map[ssa.Value]Val{}
				}
				e.Snap[v] = x
			}
		}
	}
	tr.in[s] = append(tr.in[s], e)
}

// check emits an obligation that cond holds whenever the current point is reached, and
// then strengthens reachability with cond.
func (tr *FnTr) check(kind string, cond *Term, p token.Pos) {
	if cond.IsTrue() {
		return
	}
	tr.panicEdge(kind, cond, p)
}

func (tr *FnTr) reachOrTrue() *Term {
	if tr.st.Reach == nil {
		return tTrue
	}
	return tr.st.Reach
}

// noteGlobal records that this function (top-level frame) mentions package variable g and
// reports whether it was known already. The per-function list keeps VCs independent of what
// was verified before, and in a fixed order.
func (top *FnTr) noteGlobal(g *ssa.Global) bool {
	if top.globalSeen == nil {
		top.globalSeen = map[*ssa.Global]bool{}
	}
	if top.globalSeen[g] {
		return true
	}
	top.globalSeen[g] = true
	top.globalList = append(top.globalList, g)
	return false
}

// recoverCovers reports whether a panic at the current instruction of the top-level function
// is caught by one of its recovering defers: the defer statement must already have been
// executed, i.e. it precedes the instruction in the same block or sits in a dominating block.
func (tr *FnTr) recoverCovers() bool {
	top := tr.top
	if !top.recovering || (top.ct != nil && top.ct.StrictPanics) {
		return false
	}
	in := top.curInstr
	if in == nil || in.Block() == nil {
		return true
	}
	b := in.Block()
	idx := func(x ssa.Instruction) int {
		for i, y := range x.Block().Instrs {
			if y == x {
				return i
			}
		}
		return -1
	}
	for _, d := range top.recDefers {
		db := d.Block()
		if db == b {
			if idx(d) < idx(in) {
				return true
			}
		} else if db.Dominates(b) {
			return true
		}
	}
	return false
}

// rootAllocOf follows address arithmetic back to the local variable it starts from.
func rootAllocOf(v ssa.Value) *ssa.Alloc {
	for i := 0; i < 20 && v != nil; i++ {
		switch x := v.(type) {
		case *ssa.Alloc:
			return x
		case *ssa.FieldAddr:
			v = x.X
		case *ssa.IndexAddr:
			v = x.X
		case *ssa.Slice:
			v = x.X
		case *ssa.ChangeType:
			v = x.X
		default:
			return nil
		}
	}
	return nil
}

// loopWritesAlloc: may an instruction of the loop write to local a (store through an address
// derived from it, or hand such an address to a call)?
func loopWritesAlloc(l *Loop, a *ssa.Alloc) bool {
	for b := range l.Body {
		for _, in := range b.Instrs {
			switch x := in.(type) {
			case *ssa.Store:
				if rootAllocOf(x.Addr) == a {
					return true
				}
			case ssa.CallInstruction:
				for _, arg := range x.Common().Args {
					if rootAllocOf(arg) == a {
						return true
					}
				}
				if x.Common().IsInvoke() && rootAllocOf(x.Common().Value) == a {
					return true
				}
			}
		}
	}
	return false
}

// loopKeepsObj: every allocation site that may own the id is a private local of the top-level
// function, allocated outside the loop, that nothing in the loop writes to.
func (top *FnTr) loopKeepsObj(l *Loop, obj *Term) bool {
	if !top.idAllPrivate(obj) {
		return false
	}
	for _, o := range top.owners[obj.Key()] {
		if o.depth != 0 || o.a == nil || l.Body[o.a.Block()] || loopWritesAlloc(l, o.a) {
			return false
		}
	}
	return true
}

// excSlot: what the result slots hold at one panic point covered by the recovering defer.
type excSlot struct {
	Reach *Term
	Vals  []*Term // one term per cell of each slot, in slot order
}

// resultSlots: the locals that the recover block of the function reads (named or synthesised
// results), with their object ids.
func (tr *FnTr) resultSlots() (allocs []*ssa.Alloc) {
	top := tr.top
	if top.fn == nil || top.fn.Recover == nil {
		return nil
	}
	seen := map[*ssa.Alloc]bool{}
	for _, in := range top.fn.Recover.Instrs {
		if u, ok := in.(*ssa.UnOp); ok && u.Op == token.MUL {
			if a, ok := u.X.(*ssa.Alloc); ok && !seen[a] && top.privAllocObj[a] != nil {
				seen[a] = true
				allocs = append(allocs, a)
			}
		}
	}
	return
}

func (tr *FnTr) noteExcSlots(reach *Term) {
	top := tr.top
	slots := tr.resultSlots()
	if len(slots) == 0 {
		return
	}
	var vals []*Term
	for _, a := range slots {
		obj := top.privAllocObj[a]
		n := sizeOf(a.Type().Underlying().(*types.Pointer).Elem())
		for k := 0; k < n && k < 8; k++ {
			vals = append(vals, Select(SelectDeep(tr.st.Mem, obj), Int(int64(k))))
		}
	}
	if os.Getenv("GOCV_DEBUG_EXC") != "" && len(vals) > 0 && vals[0].IntConst() == nil {
		fmt.Fprintf(os.Stderr, "excslot @%s: %.300s\n   mem=%.300s\n", tr.pos(tr.curInstr.Pos()), vals[0].String(), expandDef(tr.st.Mem).String())
	}
	top.excSlots = append(top.excSlots, excSlot{Reach: reach, Vals: vals})
}

type excLock struct {
	Reach, Locks *Term
}

// panicEdge: the current instruction panics unless ok holds.
func (tr *FnTr) panicEdge(kind string, ok *Term, p token.Pos) {
	top := tr.top
	covered := tr.recoverCovers()
	if top.refute && covered && !tr.excMode {
		if r := And(tr.st.Reach, Not(ok)); !r.IsFalse() {
			top.excEdges = append(top.excEdges, excEdge{St: State{Reach: r, Mem: tr.st.Mem, Alloc: tr.st.Alloc, Locks: tr.st.Locks, Ghost: tr.st.Ghost}})
		}
	}
	if !top.refute && covered && !tr.excMode {
		if r := And(tr.st.Reach, Not(ok)); !r.IsFalse() {
			top.excLocks = append(top.excLocks, excLock{Reach: r, Locks: tr.st.Locks})
			tr.noteExcSlots(r)
		}
	}
	if kind == "nil" && top.ct != nil && top.ct.NoNilCheck && !covered && !tr.excMode {
		tr.vc.Assumed = appendUniq(tr.vc.Assumed, "nil dereferences are not checked in "+top.ct.Name+" (pointers into node-internal structures are assumed valid)")
	} else if covered || tr.excMode || (top.ct != nil && top.ct.NoPanicCheck) {
		// control transfers to the deferred recover: the exceptional exit is checked
		// separately against a havocked state. Nothing to prove here.
	} else {
		g := ok
		if top.panicsIfT != nil {
			g = Or(ok, top.panicsIfT) // a panic the contract announces
		}
		tr.vc.Oblige(tr.prefix+"nopanic."+kind, "", Implies(tr.st.Reach, g), tr.pos(p))
	}
	tr.st.Reach = tr.vc.Def("reach", And(tr.st.Reach, ok))
}

// ---------- loops ----------

func (tr *FnTr) procLoop(l *Loop) {
	h := l.Header
	var entryEdges []*Edge
	for _, e := range tr.in[h] {
		entryEdges = append(entryEdges, e)
	}
	tr.in[h] = nil
	est, ephis, ok := tr.mergeEdges(h, entryEdges)
	if !ok {
		return
	}
	var phiInstrs []*ssa.Phi
	for _, in := range h.Instrs {
		if phi, isPhi := in.(*ssa.Phi); isPhi {
			phiInstrs = append(phiInstrs, phi)
		} else {
			break
		}
	}
	if tr.top.refute {
		tr.unrollLoop(l, est, ephis, phiInstrs, tr.top.unrollK, true)
		return
	}
	if l.ct != nil && l.ct.Unroll {
		tr.unrollLoop(l, est, ephis, phiInstrs, 20000, false)
		return
	}
	lname := fmt.Sprintf("loop%d", l.Ordinal)
	fr := &loopFrame{loop: l, entry: est, phiHdr: map[*ssa.Phi]Val{}}
	// 1. invariant on entry
	entryPhi := map[*ssa.Phi]Val{}
	for i, p := range phiInstrs {
		entryPhi[p] = ephis[i]
	}
	var invs []Clause
	var autoInv []*Term
	if l.ct != nil {
		invs = l.ct.Invariants
	}
	// evaluate declared frame at entry
	if l.ct != nil {
		ctx := tr.specCtxAt(est, entryPhi, h)
		for _, m := range l.ct.Modifies {
			fr.frame = append(fr.frame, ctx.lvals(m.E)...)
		}
	}
	for i, c := range invs {
		ctx := tr.specCtxAt(est, entryPhi, h)
		ctx.entryCtx = tr.specCtxAt(est, entryPhi, h)
		g := ctx.goal(c.E)
		tr.vc.Oblige(tr.prefix+"inv.entry."+lname, labelOr(c.Label, i+1), Implies(est.Reach, g), c.Pos)
	}
	// 2. havoc
	hst := State{Reach: est.Reach, Locks: est.Locks, Ghost: est.Ghost}
	writes, allocs := tr.loopEffects(l)
	modAny := l.ct != nil && l.ct.ModAny
	if modAny {
		writes, allocs = true, true
	}
	if writes {
		// ghost buffers may be appended to in the loop: nothing is kept about them
		hst.Ghost = tr.vc.Fresh("ghost_"+fmt.Sprintf("loop%d", l.Ordinal), SMem)
		// ...except its kind (hash algorithm), which never changes, and that lengths are >= 0
		o := Sym("o!q", SInt)
		tr.vc.Assume(Forall([]*Term{o}, Le(Int(0), Select(Select(hst.Ghost, o), Int(-1))), Select(hst.Ghost, o)))
	}
	if !writes && !allocs {
		hst.Mem, hst.Alloc = est.Mem, est.Alloc
	} else {
		hst.Alloc = est.Alloc
		if allocs {
			hst.Alloc = tr.vc.Fresh("alloc_"+lname, SInt)
			tr.vc.Assume(Le(est.Alloc, hst.Alloc))
			curEpoch++
		}
		if modAny {
			hst.Mem = tr.vc.Fresh("mem_"+lname, SMem)
			// private locals (address never leaves the function) that nothing in the loop
			// writes to keep their content
			for _, a := range tr.top.privAllocList {
				if obj := tr.top.privAllocObj[a]; obj != nil && tr.top.loopKeepsObj(l, obj) {
					if os.Getenv("GOCV_DEBUG_PRIV") != "" {
						fmt.Fprintf(os.Stderr, "PRIV loop %s keeps %s (%s) obj=%s block=%d\n", lname, a.Name(), a.Comment, obj.String(), a.Block().Index)
					}
					hst.Mem = Store(hst.Mem, obj, SelectDeep(est.Mem, obj))
				}
			}
			hst.Mem = tr.vc.Def("mem_"+lname+"_p", hst.Mem)
		} else {
			hst.Mem = tr.havocMem(est.Mem, est.Alloc, fr.frame, allocs, lname)
		}
	}
	if modAny {
		save := tr.st
		tr.st = hst
		tr.assumeDataInv()
		tr.st = save
	}
	tr.st = hst // typing facts of the header values are guarded by the header's reachability
	for i, p := range phiInstrs {
		v := tr.freshVal(tr.vname(p)+"_h", p.Type(), hst.Alloc)
		// loop-invariant phi (all back-edge operands are the phi itself): keep entry value
		tr.env[p] = v
		fr.phiHdr[p] = v
		_ = i
	}
	// automatic candidate invariants (range loops): proved on entry and step like any other
	autoInv = tr.autoInvariants(l, phiInstrs)
	fr.hdr = hst
	hdrPhi := fr.phiHdr
	for _, c := range invs {
		ctx := tr.specCtxAt(hst, hdrPhi, h)
		ctx.entryCtx = tr.specCtxAt(est, entryPhi, h)
		ctx.guard = hst.Reach
		tr.vc.Assume(Implies(hst.Reach, ctx.fact(c.E)))
	}
	for _, a := range autoInv {
		tr.vc.Assume(a)
	}
	var decHdr *Term
	if l.ct != nil && l.ct.Decreases != nil {
		ctx := tr.specCtxAt(hst, hdrPhi, h)
		decHdr = tr.vc.Def("variant_"+lname, ctx.intTerm(l.ct.Decreases.E))
	}
	// 3. body
	tr.curLoops = append(tr.curLoops, fr)
	tr.st = hst
	tr.procInstrs(h, len(phiInstrs))
	body := map[*ssa.BasicBlock]bool{}
	for b := range l.Body {
		if b != h {
			body[b] = true
		}
	}
	// process remaining blocks of the loop; the header has been done, so seed by treating
	// edges out of the header as already recorded.
	tr.procLoopBody(l, body)
	tr.curLoops = tr.curLoops[:len(tr.curLoops)-1]
	// 4. back edges
	backs := tr.in[h]
	tr.in[h] = nil
	for bi, e := range backs {
		bphi := map[*ssa.Phi]Val{}
		for i, p := range phiInstrs {
			bphi[p] = e.Phis[i]
		}
		suffix := ""
		if len(backs) > 1 {
			suffix = fmt.Sprintf("@%d", bi+1)
		}
		for i, c := range invs {
			ctx := tr.specCtxAt(e.St, bphi, h)
			ctx.entryCtx = tr.specCtxAt(est, entryPhi, h)
			g := ctx.goal(c.E)
			tr.vc.Oblige(tr.prefix+"inv.step."+lname, labelOr(c.Label, i+1)+suffix, Implies(e.St.Reach, g), c.Pos)
		}
		if decHdr != nil {
			ctx := tr.specCtxAt(e.St, bphi, h)
			d := ctx.intTerm(l.ct.Decreases.E)
			tr.vc.Oblige(tr.prefix+"variant."+lname, strings.TrimPrefix(suffix, "@"), Implies(e.St.Reach, And(Le(Int(0), decHdr), Lt(d, decHdr))), l.ct.Decreases.Pos)
		}
		if writes && !modAny {
			tr.frameObligation(tr.prefix+"frame", lname+suffix, e.St, hst.Mem, est.Alloc, fr.frame)
		}
		tr.lockBalance(tr.prefix+"lockbalance", lname+suffix, e.St, hst.Locks)
	}
}

func labelOr(label string, n int) string {
	if label != "" {
		return label
	}
	return fmt.Sprint(n)
}

// procLoopBody processes the non-header blocks of loop l.
func (tr *FnTr) procLoopBody(l *Loop, body map[*ssa.BasicBlock]bool) {
	if len(body) == 0 {
		return
	}
	tr.procRegionExcl(body, l)
}

// procRegionExcl is procRegion over set where the loop header of cur has already been
// translated (its outgoing edges are recorded) and is not part of set.
func (tr *FnTr) procRegionExcl(set map[*ssa.BasicBlock]bool, cur *Loop) {
	tr.procRegion(set, cur)
}

// loopEffects reports whether the loop body may write memory / allocate objects.
func (tr *FnTr) loopEffects(l *Loop) (writes, allocs bool) {
	for b := range l.Body {
		for _, in := range b.Instrs {
			switch x := in.(type) {
			case *ssa.Store, *ssa.MapUpdate, *ssa.Send, *ssa.Go, *ssa.Select, *ssa.Defer, *ssa.RunDefers:
				writes = true
			case *ssa.Alloc, *ssa.MakeSlice, *ssa.MakeMap, *ssa.MakeChan, *ssa.MakeClosure, *ssa.MakeInterface:
				writes, allocs = true, true
			case *ssa.Convert:
				if isString(x.Type()) || isString(x.X.Type()) {
					if !isInteger(x.X.Type()) || true {
						if _, ok := x.Type().Underlying().(*types.Slice); ok {
							writes, allocs = true, true
						}
					}
				}
			case *ssa.Call:
				w, a := tr.callEffects(x.Common())
				writes = writes || w
				allocs = allocs || a
			}
		}
	}
	return
}

// havocMem returns a memory that agrees with m outside the frame cells (and, if allocs,
// on all objects older than alloc), with frame cells and newer objects unconstrained.
func (tr *FnTr) havocMem(m, alloc *Term, frame []cellRange, allocs bool, tag string) *Term {
	vc := tr.vc
	m1 := m
	for i, r := range frame {
		old := Select(m1, r.Obj)
		if hi := constDiff(r.Hi, r.Lo); hi != nil && hi.IsInt64() && hi.Int64() <= 32 {
			n := int(hi.Int64())
			a := old
			var leaves []Leaf
			if r.T != nil && sizeOf(r.T) == n {
				leaves = layoutOf(r.T).Leaves
			}
			for k := 0; k < n; k++ {
				a = Store(a, Add(r.Lo, Int(int64(k))), vc.Fresh(fmt.Sprintf("hv_%s_%d", tag, i), SInt))
				if leaves != nil {
					a.Name = leafTag(leaves[k])
				} else if r.ElemTag != "" {
					a.Name = r.ElemTag
				}
			}
			m1 = vc.Def("mem_hv_"+tag, Store(m1, r.Obj, a))
			continue
		}
		if mx, ok := upperBound(Sub(r.Hi, r.Lo)); ok && mx <= 16 {
			// small symbolic range with a static bound: conditional stores, no quantifier
			a := old
			for k := int64(0); k < mx; k++ {
				idx := Add(r.Lo, Int(k))
				a = Store(a, idx, Ite(Lt(idx, r.Hi), vc.Fresh(fmt.Sprintf("hv_%s_%d", tag, i), SInt), Select(old, idx)))
				if r.ElemTag != "" {
					a.Name = r.ElemTag
				}
			}
			m1 = vc.Def("mem_hv_"+tag, Store(m1, r.Obj, a))
			continue
		}
		na := vc.Fresh(fmt.Sprintf("hvarr_%s_%d", tag, i), SArr)
		j := Sym("j!q", SInt)
		vc.Assume(Forall([]*Term{j}, Implies(Or(Lt(j, r.Lo), Ge(j, r.Hi)), Eq(Select(na, j), Select(old, j))), Select(na, j)))
		if r.ElemTag != "" {
			// only cells of one cell type change in this object: reads of other cell types
			// may skip this version (the store is not merged with an earlier one)
			st := mk("store", SMem, m1, r.Obj, na)
			st.Name = "hv:" + r.ElemTag
			m1 = vc.Def("mem_hv_"+tag, st)
		} else {
			m1 = vc.Def("mem_hv_"+tag, Store(m1, r.Obj, na))
		}
	}
	// Objects allocated meanwhile have ids >= alloc. Nothing is known about the content of
	// m at such ids (they were unallocated), so "m1 at those ids" already stands for an
	// arbitrary content: no separate fresh memory (and no quantifier) is needed.
	_ = allocs
	return m1
}

// constDiff returns hi-lo when it is a constant (same symbolic base).
func constDiff(hi, lo *Term) *big.Int {
	bh, ch := normIdx(hi)
	bl, cl := normIdx(lo)
	if bh == bl {
		return new(big.Int).Sub(ch, cl)
	}
	return Sub(hi, lo).IntConst()
}

// upperBound: a static upper bound of a term built from constants, ite and +.
func upperBound(t *Term) (int64, bool) {
	t = expandDefShallow(t)
	if c := t.IntConst(); c != nil {
		if c.IsInt64() {
			return c.Int64(), true
		}
		return 0, false
	}
	switch t.Op {
	case "ite":
		a, ok1 := upperBound(t.Args[1])
		b, ok2 := upperBound(t.Args[2])
		if ok1 && ok2 {
			if a > b {
				return a, true
			}
			return b, true
		}
		// min(x, y) written as ite(x < y, x, y): bounded by whichever side has a bound
		if c := t.Args[0]; (c.Op == "<" || c.Op == "<=") && len(c.Args) == 2 &&
			c.Args[0].Key() == t.Args[1].Key() && c.Args[1].Key() == t.Args[2].Key() {
			if ok1 {
				return a, true
			}
			if ok2 {
				return b, true
			}
		}
	case "+":
		var sum int64
		for _, x := range t.Args {
			v, ok := upperBound(x)
			if !ok {
				return 0, false
			}
			sum += v
		}
		return sum, true
	}
	return 0, false
}

// frameObligation: every cell of every object older than alloc that lies outside the frame
// has the same content in st.Mem as in base.
func (tr *FnTr) frameObligation(kind, label string, st State, base, alloc *Term, frame []cellRange) {
	o := tr.vc.Fresh("fr_o", SInt)
	j := tr.vc.Fresh("fr_j", SInt)
	inFrame := []*Term{}
	for _, r := range frame {
		inFrame = append(inFrame, And(Eq(o, r.Obj), Le(r.Lo, j), Lt(j, r.Hi)))
	}
	hyp := And(st.Reach, Lt(o, alloc), Le(Int(0), o), Not(Or(inFrame...)))
	goal := Implies(hyp, Eq(Select(Select(st.Mem, o), j), Select(Select(base, o), j)))
	tr.vc.Oblige(kind, label, goal, "")
}

// freshVal declares fresh leaves for a value of type T with typing assumptions.
func (tr *FnTr) freshVal(base string, T types.Type, alloc *Term) Val {
	lay := layoutOf(T)
	v := Val{T: T, L: make([]*Term, lay.N())}
	for i, lf := range lay.Leaves {
		s := SInt
		if lf.K == LBool {
			s = SBool
		}
		nm := base
		if lay.N() > 1 {
			nm = fmt.Sprintf("%s_%d", base, i)
		}
		v.L[i] = tr.vc.Fresh(nm, s)
	}
	tr.assumeTyped(v, alloc)
	return v
}

// assumeTyped asserts the typing facts of a value (ranges, header shape).
// typeContains reports whether a value of type G holds a T inline (not behind a pointer).
func typeContains(G, T types.Type, depth int) bool {
	if types.Identical(G, T) {
		return true
	}
	if depth > 6 {
		return true
	}
	switch g := G.Underlying().(type) {
	case *types.Struct:
		for i := 0; i < g.NumFields(); i++ {
			if typeContains(g.Field(i).Type(), T, depth+1) {
				return true
			}
		}
	case *types.Array:
		return typeContains(g.Elem(), T, depth+1)
	}
	// an element of basic type may be viewed through any same-kind basic type
	if bg, bt := basicOf(G), basicOf(T); bg != nil && bt != nil && bg.Kind() == bt.Kind() {
		return true
	}
	return false
}

type typedObj struct {
	obj  *Term
	elem types.Type
	off  *Term // cell offset of the referenced value (pointers only)
}

// refElem: the element type a reference leaf at index i of v points to.
func refElem(T types.Type, lay *Layout, i int) types.Type {
	// find the static pointer/slice type by its recorded string: cheaper to recompute
	var found types.Type
	var walk func(t types.Type, base int) int
	walk = func(t types.Type, base int) int {
		switch u := t.Underlying().(type) {
		case *types.Pointer:
			if base == i {
				found = u.Elem()
			}
			return base + 2
		case *types.Slice:
			if base == i {
				found = u.Elem()
			}
			return base + 4
		case *types.Struct:
			for k := 0; k < u.NumFields(); k++ {
				base = walk(u.Field(k).Type(), base)
			}
			return base
		case *types.Array:
			es := sizeOf(u.Elem())
			if i >= base && i < base+int(u.Len())*es && es > 0 {
				k := (i - base) / es
				walk(u.Elem(), base+k*es)
			}
			return base + int(u.Len())*es
		case *types.Tuple:
			for k := 0; k < u.Len(); k++ {
				base = walk(u.At(k).Type(), base)
			}
			return base
		}
		return base + sizeOf(t)
	}
	walk(T, 0)
	return found
}

// globalSeparation: an object reached through a reference to T is not a package-level
// variable whose type holds no T (Go type safety; no unsafe).
func (tr *FnTr) globalSeparation(obj *Term, elem types.Type) {
	if obj.IntConst() != nil || elem == nil {
		return
	}
	top := tr.top
	top.typedObjs = append(top.typedObjs, typedObj{obj: obj, elem: elem})
	var cs []*Term
	for _, g := range tr.top.globalList {
		id := tr.eng.globalID(g)
		gt := g.Type().Underlying().(*types.Pointer).Elem()
		if !typeContains(gt, elem, 0) {
			cs = append(cs, Ne(obj, Int(id)))
		}
	}
	if len(cs) > 0 {
		tr.vc.Assume(Implies(tr.reachOrTrue(), And(cs...)))
	}
}

// globalSepFacts: the separation facts of all reference leaves of v, as a term.
func (tr *FnTr) globalSepFacts(v Val) *Term {
	lay := layoutOf(v.T)
	var cs []*Term
	for i, lf := range lay.Leaves {
		if lf.K != LObj || lf.Str || v.L[i].IntConst() != nil {
			continue
		}
		elem := refElem(v.T, lay, i)
		if elem == nil {
			continue
		}
		for _, g := range tr.top.globalList {
			id := tr.eng.globalID(g)
			gt := g.Type().Underlying().(*types.Pointer).Elem()
			if !typeContains(gt, elem, 0) {
				cs = append(cs, Ne(v.L[i], Int(id)))
			}
		}
	}
	return And(cs...)
}

// ptrSeparation: values of types A and B, neither of which holds the other inline, occupy
// disjoint cells (Go type safety). Stated for a new pointer against the pointers typed so
// far in this function.
func (tr *FnTr) ptrSeparation(obj, off *Term, elem types.Type) {
	if obj.IntConst() != nil || elem == nil {
		return
	}
	top := tr.top
	sz := sizeOf(elem)
	var cs []*Term
	n := 0
	for k := len(top.typedPtrs) - 1; k >= 0 && n < 16; k-- {
		p := top.typedPtrs[k]
		if p.obj.Key() == obj.Key() && p.off.Key() == off.Key() {
			continue
		}
		if typeContains(p.elem, elem, 0) || typeContains(elem, p.elem, 0) {
			continue
		}
		n++
		psz := sizeOf(p.elem)
		cs = append(cs, Or(Ne(obj, p.obj), Le(Add(off, Int(int64(sz))), p.off), Le(Add(p.off, Int(int64(psz))), off)))
	}
	if len(cs) > 0 {
		tr.vc.Assume(Implies(tr.reachOrTrue(), And(cs...)))
	}
	top.typedPtrs = append(top.typedPtrs, typedObj{obj: obj, elem: elem, off: off})
}

// ptrSepFacts: the same facts as ptrSeparation for a pointer met in a specification (as a
// formula, not registered).
func (tr *FnTr) ptrSepFacts(v Val) *Term {
	top := tr.top
	lay0 := layoutOf(v.T)
	var cs []*Term
	for i, lf := range lay0.Leaves {
		if lf.K != LObj || lf.Str || v.L[i].IntConst() != nil {
			continue
		}
		if !(i+1 < len(lay0.Leaves) && lay0.Leaves[i+1].K == LOff && !(i+2 < len(lay0.Leaves) && lay0.Leaves[i+2].K == LLen)) {
			continue
		}
		el := refElem(v.T, lay0, i)
		if el == nil {
			continue
		}
		if _, isStruct := el.Underlying().(*types.Struct); !isStruct {
			continue
		}
		obj, off := v.L[i], v.L[i+1]
		sz := sizeOf(el)
		n := 0
		for k := len(top.typedPtrs) - 1; k >= 0 && n < 8; k-- {
			p := top.typedPtrs[k]
			if p.obj.Key() == obj.Key() && p.off.Key() == off.Key() {
				continue
			}
			if typeContains(p.elem, el, 0) || typeContains(el, p.elem, 0) {
				continue
			}
			n++
			psz := sizeOf(p.elem)
			cs = append(cs, Or(Ne(obj, p.obj), Le(Add(off, Int(int64(sz))), p.off), Le(Add(p.off, Int(int64(psz))), off)))
		}
	}
	return And(cs...)
}

func (tr *FnTr) assumeTyped(v Val, alloc *Term) {
	lay0 := layoutOf(v.T)
	for i, lf := range lay0.Leaves {
		if lf.K == LObj && !lf.Str && alloc != nil {
			el := refElem(v.T, lay0, i)
			tr.globalSeparation(v.L[i], el)
			// pointers (not slices): the pointee occupies [off, off+size)
			if i+1 < len(lay0.Leaves) && lay0.Leaves[i+1].K == LOff && !(i+2 < len(lay0.Leaves) && lay0.Leaves[i+2].K == LLen) {
				if _, isStruct := el.Underlying().(*types.Struct); isStruct {
					tr.ptrSeparation(v.L[i], v.L[i+1], el)
				}
			}
		}
	}
	// guarded by reachability: on executions that do not pass here the value is whatever the
	// memory holds at a meaningless address, and need not be well typed
	tr.vc.Assume(Implies(tr.reachOrTrue(), typingFacts(v, alloc)))
	if alloc != nil {
		for i, lf := range layoutOf(v.T).Leaves {
			if lf.K == LObj && !lf.Str {
				noteObjBound(v.L[i])
			}
		}
	}
}

func typingFacts(v Val, alloc *Term) *Term {
	lay := layoutOf(v.T)
	var cs []*Term
	for i, lf := range lay.Leaves {
		t := v.L[i]
		switch lf.K {
		case LInt:
			cs = append(cs, inRange(t, lf.B))
		case LObj:
			if lf.Str {
				continue
			}
			cs = append(cs, Le(Int(0), t))
			if alloc != nil {
				cs = append(cs, Lt(t, alloc))
			}
		case LOff:
			cs = append(cs, Le(Int(0), t))
			if i > 0 && lay.Leaves[i-1].K == LObj && !lay.Leaves[i-1].Str && (i+1 >= len(lay.Leaves) || lay.Leaves[i+1].K != LLen) {
				// canonical nil pointer
				cs = append(cs, Implies(Eq(v.L[i-1], Int(0)), Eq(t, Int(0))))
			}
		case LLen:
			cs = append(cs, Le(Int(0), t), Le(t, maxLen))
			if i+1 < len(lay.Leaves) && lay.Leaves[i+1].K == LCap {
				cs = append(cs, Le(t, v.L[i+1]))
				// nil slice has no length
				cs = append(cs, Implies(Eq(v.L[i-2], Int(0)), And(Eq(v.L[i+1], Int(0)), Eq(v.L[i-1], Int(0)))))
			}
		case LCap:
			cs = append(cs, Le(t, maxLen))
		}
	}
	return And(cs...)
}

// autoInvariants: candidates that are sound by construction for go/ssa's rangeindex
// loops: the index phi starts at -1 and is incremented by one before the bound test.
func (tr *FnTr) autoInvariants(l *Loop, phis []*ssa.Phi) []*Term {
	var out []*Term
	if !strings.HasPrefix(l.Header.Comment, "rangeindex.loop") {
		return nil
	}
	for _, p := range phis {
		if p.Comment != "rangeindex" {
			continue
		}
		// pattern: t' = phi + 1 ; t' < n ; if ... where n is defined outside the loop.
		v := tr.env[p].L[0]
		out = append(out, Le(Int(-1), v))
		for _, in := range l.Header.Instrs {
			if bo, ok := in.(*ssa.BinOp); ok && bo.Op == token.LSS {
				if add, ok := bo.X.(*ssa.BinOp); ok && add.Op == token.ADD && add.X == p {
					if !l.Body[blockOf(bo.Y)] || blockOf(bo.Y) == nil {
						if n, ok := tr.env[bo.Y]; ok {
							// on entry -1 < n needs n >= 0 (a length); on step: phi' = phi+1 < n.
							out = append(out, Or(Lt(v, n.L[0]), Eq(v, Int(-1))))
						} else if c, ok := bo.Y.(*ssa.Const); ok {
							out = append(out, Or(Lt(v, tr.val(c).L[0]), Eq(v, Int(-1))))
						}
					}
				}
			}
		}
	}
	return out
}

func blockOf(v ssa.Value) *ssa.BasicBlock {
	if in, ok := v.(ssa.Instruction); ok {
		return in.Block()
	}
	return nil
}

// unrollLoop executes a loop whose exit test folds to a constant in every iteration.
func (tr *FnTr) unrollLoop(l *Loop, est State, ephis []Val, phis []*ssa.Phi, maxIter int, cut bool) {
	h := l.Header
	st := est
	cur := ephis
	body := map[*ssa.BasicBlock]bool{}
	for b := range l.Body {
		if b != h {
			body[b] = true
		}
	}
	for it := 0; ; it++ {
		if it > maxIter {
			if cut {
				return // longer executions are outside the bounded search
			}
			tr.unsupported("loop %d of %s: unroll exceeds %d iterations", l.Ordinal, tr.fn, maxIter)
		}
		tr.st = st
		for i, p := range phis {
			tr.env[p] = tr.defVal(tr.vname(p), cur[i])
		}
		// clear stale in-edges of body blocks from the previous iteration
		for b := range body {
			tr.in[b] = nil
		}
		tr.procInstrs(h, len(phis))
		tr.procLoopBody(l, body)
		backs := tr.in[h]
		tr.in[h] = nil
		if len(backs) == 0 {
			return
		}
		nst, nphis, ok := tr.mergeEdges(h, backs)
		if !ok {
			return
		}
		if !nst.Reach.IsConst() && it > 0 && false {
			tr.unsupported("unroll: back edge not constant")
		}
		st, cur = nst, nphis
	}
}

// lockBalance: every mutex the function touches has the same ghost lock count in st as in
// base (on return: as on entry; at a loop back edge: as at the loop head).
func (tr *FnTr) lockBalance(kind, label string, st State, base *Term) {
	top := tr.top
	if len(top.lockSites) == 0 || st.Locks == nil || base == nil {
		return
	}
	var cs []*Term
	seen := map[string]bool{}
	for _, a := range top.lockSites {
		k := a[0].Key() + "/" + a[1].Key()
		if seen[k] {
			continue
		}
		seen[k] = true
		cs = append(cs, Eq(Select(Select(st.Locks, a[0]), a[1]), Select(Select(base, a[0]), a[1])))
	}
	tr.vc.Oblige(kind, label, Implies(st.Reach, And(cs...)), "")
}
