package main

// Printing of SMT terms with sharing: closed subterms that occur more than once in a script
// are emitted once as a `define-fun` and referred to by name. Specification formulas repeat
// their typing side conditions many times; printed as trees they reach megabytes, which is
// what the solvers then choke on. Sharing changes nothing semantically.

import (
	"fmt"
	"os"
	"strconv"
	"strings"
)

type shareNode struct {
	t       *Term
	kids    []int
	refs    int
	open    bool // mentions a quantifier-bound variable
	size    int
	emitted bool
}

type sharePrinter struct {
	ids   map[string]int
	byPtr map[*Term]int
	nodes []*shareNode
	bound map[string]bool
	pfx   string
}

func newSharePrinter() *sharePrinter {
	return &sharePrinter{ids: map[string]int{}, byPtr: map[*Term]int{}, bound: map[string]bool{}, pfx: "s!"}
}

func (sp *sharePrinter) intern(t *Term) int {
	if id, ok := sp.byPtr[t]; ok {
		return id
	}
	if t.Op == "forall" || t.Op == "exists" {
		for _, a := range t.Args[:len(t.Args)-1] {
			sp.bound[a.Name] = true
		}
	}
	var kb strings.Builder
	kb.WriteString(t.Op)
	kb.WriteByte(0)
	switch t.Op {
	case "const":
		kb.WriteString(t.String())
		kb.WriteString(t.Sort.String())
	case "sym":
		kb.WriteString(t.Name)
	default:
		kb.WriteString(t.Name) // cell-type tags etc. do not print, but keep nodes apart
	}
	kids := make([]int, len(t.Args))
	open := t.Op == "sym" && sp.bound[t.Name]
	size := 1
	for i, a := range t.Args {
		k := sp.intern(a)
		kids[i] = k
		kb.WriteByte(' ')
		kb.WriteString(strconv.Itoa(k))
		if sp.nodes[k].open {
			open = true
		}
		size += sp.nodes[k].size
		if size > 1<<20 {
			size = 1 << 20
		}
	}
	key := kb.String()
	if id, ok := sp.ids[key]; ok {
		sp.byPtr[t] = id
		return id
	}
	id := len(sp.nodes)
	sp.nodes = append(sp.nodes, &shareNode{t: t, kids: kids, open: open, size: size})
	sp.ids[key] = id
	sp.byPtr[t] = id
	for _, k := range kids {
		sp.nodes[k].refs++
	}
	return id
}

// use registers one more use of a root term.
func (sp *sharePrinter) use(t *Term) {
	if t == nil {
		return
	}
	sp.nodes[sp.intern(t)].refs++
}

var noShare = os.Getenv("GOCV_NOSHARE") != ""

func (sp *sharePrinter) shared(n *shareNode) bool {
	if noShare {
		return false
	}
	if n.open || n.refs < 2 || n.size < 6 {
		return false
	}
	switch n.t.Op {
	case "const", "sym", "zeroarr", "pat", "forall", "exists":
		return false
	}
	return true
}

// print returns the text of t; definitions of shared subterms not yet emitted go to defs.
func (sp *sharePrinter) print(t *Term, defs *strings.Builder) string {
	var out strings.Builder
	sp.write(sp.intern(t), &out, defs)
	return out.String()
}

func (sp *sharePrinter) write(id int, out, defs *strings.Builder) {
	n := sp.nodes[id]
	if sp.shared(n) {
		name := sp.pfx + strconv.Itoa(id)
		if !n.emitted {
			n.emitted = true
			var b strings.Builder
			sp.writeBody(n, &b, defs)
			fmt.Fprintf(defs, "(define-fun %s () %s %s)\n", name, n.t.Sort, b.String())
		}
		out.WriteString(name)
		return
	}
	sp.writeBody(n, out, defs)
}

func (sp *sharePrinter) writeBody(n *shareNode, out, defs *strings.Builder) {
	t := n.t
	switch t.Op {
	case "const", "sym", "zeroarr":
		out.WriteString(t.String())
		return
	case "forall", "exists":
		out.WriteString("(" + t.Op + " (")
		k := len(t.Args) - 1
		for i := 0; i < k; i++ {
			fmt.Fprintf(out, "(%s %s)", t.Args[i].Name, t.Args[i].Sort)
		}
		out.WriteString(") ")
		sp.write(n.kids[k], out, defs)
		out.WriteString(")")
		return
	case "pat":
		out.WriteString("(! ")
		sp.write(n.kids[0], out, defs)
		out.WriteString(" :pattern (")
		for i, k := range n.kids[1:] {
			if i > 0 {
				out.WriteByte(' ')
			}
			// patterns must stay syntactic: print them without sharing
			sp.nodes[k].t.write(out)
		}
		out.WriteString("))")
		return
	}
	out.WriteByte('(')
	out.WriteString(t.Op)
	for _, k := range n.kids {
		out.WriteByte(' ')
		sp.write(k, out, defs)
	}
	out.WriteByte(')')
}
