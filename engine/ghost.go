package main

// Ghost byte buffers (DESIGN A.6): hash.Hash, bytes.Buffer and io.Writer values carry a
// ghost byte sequence G[id]: cell -1 is the length, cell -2 the algorithm / kind, cells
// 0..len-1 the bytes written, every other cell 0. A digest is an uninterpreted function of
// (algorithm, bytes, length): nothing about SHA-256 etc. is assumed beyond being functions.

import (
	"sort"
	"fmt"
	"go/types"
	"strings"

	"golang.org/x/tools/go/ssa"
)

const (
	algBuffer = 0
	algSHA256 = 1
	algSHA512 = 2
	algSHA1   = 3
	algRIPEMD = 4
	algHMAC   = 5
	algTagged = 16 // + tag index
)

var digestSize = map[int64]int64{algSHA256: 32, algSHA512: 64, algSHA1: 20, algRIPEMD: 20, algHMAC: 64}

func (tr *FnTr) ghostArr(id *Term) *Term { return Select(tr.st.Ghost, id) }
func (tr *FnTr) ghostLen(id *Term) *Term { return Select(tr.ghostArr(id), Int(-1)) }

// ghostNew makes id an empty buffer of the given kind.
// The kind (hash algorithm / buffer / reader) of a ghost object never changes after its
// creation: it is an uninterpreted function of the object id, pinned where the object is made.
func (tr *FnTr) ghostKind(id *Term) *Term {
	tr.vc.DeclareUF("gkind", []Sort{SInt}, SInt)
	return App("gkind", SInt, id)
}

func (tr *FnTr) ghostNew(id *Term, alg *Term) {
	if k := tr.ghostKind(id); k.Key() != alg.Key() {
		// guarded by reachability: alternative branches allocate their objects at the same
		// id (the allocation counter at the branch point), possibly with different kinds
		tr.vc.Assume(Implies(tr.st.Reach, Eq(k, alg)))
	}
	tr.st.Ghost = tr.vc.Def("ghost", Store(tr.st.Ghost, id, Store(Store(zeroArr, Int(-1), Int(0)), Int(-2), alg)))
}

// ghostAppendCells appends n cells read from srcArr[soff..].
func (tr *FnTr) ghostAppendCells(id, srcArr, soff, n *Term) {
	arr := tr.vc.Def("g_arr", tr.ghostArr(id))
	ln := tr.vc.Def("g_len", Select(arr, Int(-1)))
	tr.vc.Assume(Le(Int(0), ln))
	var na *Term
	if c := n.IntConst(); c != nil && c.IsInt64() && c.Int64() <= 80 {
		na = arr
		for k := int64(0); k < c.Int64(); k++ {
			na = Store(na, Add(ln, Int(k)), Select(srcArr, Add(soff, Int(k))))
		}
	} else {
		na = tr.vc.Fresh("g_app", SArr)
		j := Sym("j!q", SInt)
		in := And(Le(ln, j), Lt(j, Add(ln, n)))
		tr.vc.Assume(Forall([]*Term{j}, Eq(Select(na, j), Ite(in, Select(srcArr, Add(soff, Sub(j, ln))), Select(arr, j))), Select(na, j)))
	}
	na = Store(na, Int(-1), Add(ln, n))
	tr.st.Ghost = tr.vc.Def("ghost", Store(tr.st.Ghost, id, na))
}

func (tr *FnTr) ghostAppendBytes(id *Term, bytesLE []*Term) {
	arr := tr.vc.Def("g_arr", tr.ghostArr(id))
	ln := tr.vc.Def("g_len", Select(arr, Int(-1)))
	tr.vc.Assume(Le(Int(0), ln))
	na := arr
	for k, b := range bytesLE {
		na = Store(na, Add(ln, Int(int64(k))), b)
	}
	na = Store(na, Int(-1), Add(ln, Int(int64(len(bytesLE)))))
	tr.st.Ghost = tr.vc.Def("ghost", Store(tr.st.Ghost, id, na))
}

// intBytes: the n bytes of v, little or big endian, as the unique base-256 digits.
func (tr *FnTr) intBytes(v *Term, n int, be bool) []*Term {
	var bs []*Term
	var parts []*Term
	for i := 0; i < n; i++ {
		c := tr.vc.Fresh("wb", SInt)
		tr.vc.Assume(And(Le(Int(0), c), Le(c, Int(255))))
		bs = append(bs, c)
		parts = append(parts, Mul(c, Pow2(uint(8*i))))
	}
	tr.vc.Assume(Eq(Add(parts...), v))
	if be {
		for i, j := 0, len(bs)-1; i < j; i, j = i+1, j-1 {
			bs[i], bs[j] = bs[j], bs[i]
		}
	}
	return bs
}

// ghostID: the identity under which a writer value keeps its ghost buffer.
func ghostID(v Val) *Term { return v.L[0] }

func (tr *FnTr) ghostWriteSlice(id *Term, p Val) {
	var src *Term
	if isString(p.T) {
		src = Select(tr.eng.strMem(), p.L[0])
	} else {
		u8 := leafTag(Leaf{K: LInt, B: types.Typ[types.Uint8]})
		src = Select(readThrough(tr.st.Mem, p.L[0], u8, 0), p.L[0])
	}
	src = tr.vc.Def("g_src", src)
	tr.ghostAppendCells(id, src, p.L[1], p.L[2])
}

// digest returns a fresh slice holding the digest of the buffer.
func (tr *FnTr) ghostSum(id *Term, x ssa.Value, prefix *Val) Val {
	arr := tr.vc.Def("g_arr", tr.ghostArr(id))
	ln := Select(arr, Int(-1))
	alg := tr.ghostKind(id)
	tr.vc.DeclareUF("digest", []Sort{SInt, SArr, SInt, SInt}, SInt)
	// size by algorithm
	size := tr.vc.Fresh("dg_size", SInt)
	var cs []*Term
	var algs []int64
	for a := range digestSize {
		algs = append(algs, a)
	}
	sort.Slice(algs, func(i, j int) bool { return algs[i] < algs[j] })
	for _, a := range algs {
		cs = append(cs, Implies(Eq(alg, Int(a)), Eq(size, Int(digestSize[a]))))
	}
	cs = append(cs, Implies(Ge(alg, Int(algTagged)), Eq(size, Int(32))))
	cs = append(cs, And(Le(Int(1), size), Le(size, Int(64))))
	tr.vc.Assume(And(cs...))
	obj := tr.newObject("digest")
	na := tr.vc.Fresh("dg_arr", SArr)
	// content: bytes 0..size-1 are digest(alg, bytes, len, k)
	body := Store(Store(arr, Int(-1), Int(0)), Int(-2), Int(0)) // the pure byte content
	body = tr.vc.Def("dg_body", body)
	{
		k := Sym("k!q", SInt)
		d := App("digest", SInt, alg, body, ln, k)
		tr.vc.Assume(Forall([]*Term{k}, Implies(And(Le(Int(0), k), Lt(k, size)), And(Eq(Select(na, k), d), Le(Int(0), d), Le(d, Int(255)))), Select(na, k)))
	}
	tr.st.Mem = tr.vc.Def("mem", Store(tr.st.Mem, obj, na))
	if prefix != nil && !isNilConstVal(*prefix) {
		tr.note("hash.Sum with a non-nil prefix (result unconstrained)")
		return tr.freshVal(tr.vname(x), x.Type(), tr.st.Alloc)
	}
	return Val{L: []*Term{obj, Int(0), size, size}}
}

func init() {
	mk := func(name string, f func(tr *FnTr, x ssa.Value, a []Val, cc *ssa.CallCommon) Val) {
		libModels[name] = func(tr *FnTr, x ssa.Value, args []Val, cc *ssa.CallCommon) Val {
			tr.usedModel("ghost byte buffer for hashers / bytes.Buffer / io.Writer; digests are uninterpreted functions of the bytes written")
			return f(tr, x, args, cc)
		}
		libEffects[name] = [2]bool{false, true}
	}
	newHasher := func(alg int64) func(tr *FnTr, x ssa.Value, a []Val, cc *ssa.CallCommon) Val {
		return func(tr *FnTr, x ssa.Value, a []Val, cc *ssa.CallCommon) Val {
			id := tr.newObject("hasher")
			tr.ghostNew(id, Int(alg))
			return Val{L: []*Term{id}}
		}
	}
	mk("crypto/sha256.New", newHasher(algSHA256))
	mk("crypto/sha512.New", newHasher(algSHA512))
	mk("crypto/sha1.New", newHasher(algSHA1))
	mk(modulePath+"/lib/others/ripemd160.New", newHasher(algRIPEMD))
	mk("crypto/hmac.New", func(tr *FnTr, x ssa.Value, a []Val, cc *ssa.CallCommon) Val {
		id := tr.newObject("hmac")
		tr.ghostNew(id, Int(algHMAC))
		// the key is part of the identity of the MAC: an uninterpreted function of its bytes
		tr.vc.DeclareUF("mackey", []Sort{SArr, SInt, SInt}, SInt)
		key := a[1]
		u8 := leafTag(Leaf{K: LInt, B: types.Typ[types.Uint8]})
		karr := Select(readThrough(tr.st.Mem, key.L[0], u8, 0), key.L[0])
		arr := Store(tr.ghostArr(id), Int(-3), App("mackey", SInt, karr, key.L[1], key.L[2]))
		tr.st.Ghost = tr.vc.Def("ghost", Store(tr.st.Ghost, id, arr))
		return Val{L: []*Term{id}}
	})
	mk(modulePath+"/lib/btc.Hasher", func(tr *FnTr, x ssa.Value, a []Val, cc *ssa.CallCommon) Val {
		id := tr.newObject("hasher")
		tr.ghostNew(id, Add(Int(algTagged), a[0].L[0]))
		return Val{L: []*Term{id}}
	})
	// bytes.Buffer methods (pointer receiver: id = object of the pointer)
	bb := "bytes.(*Buffer)."
	mk(bb+"Write", func(tr *FnTr, x ssa.Value, a []Val, cc *ssa.CallCommon) Val {
		tr.check("nil", Ne(a[0].L[0], Int(0)), posOf(x))
		tr.ghostWriteSlice(a[0].L[0], a[1])
		return Val{L: []*Term{a[1].L[2], Int(0)}}
	})
	mk(bb+"WriteString", func(tr *FnTr, x ssa.Value, a []Val, cc *ssa.CallCommon) Val {
		tr.check("nil", Ne(a[0].L[0], Int(0)), posOf(x))
		tr.ghostWriteSlice(a[0].L[0], a[1])
		return Val{L: []*Term{a[1].L[2], Int(0)}}
	})
	mk(bb+"WriteByte", func(tr *FnTr, x ssa.Value, a []Val, cc *ssa.CallCommon) Val {
		tr.check("nil", Ne(a[0].L[0], Int(0)), posOf(x))
		tr.ghostAppendBytes(a[0].L[0], []*Term{a[1].L[0]})
		return Val{L: []*Term{Int(0)}}
	})
	mk(bb+"Len", func(tr *FnTr, x ssa.Value, a []Val, cc *ssa.CallCommon) Val {
		l := tr.ghostLen(a[0].L[0])
		tr.vc.Assume(Le(Int(0), l))
		return Val{L: []*Term{l}}
	})
	mk(bb+"Reset", func(tr *FnTr, x ssa.Value, a []Val, cc *ssa.CallCommon) Val {
		tr.ghostNew(a[0].L[0], Int(algBuffer))
		return Val{}
	})
	bytesOf := func(tr *FnTr, x ssa.Value, a []Val, cc *ssa.CallCommon) Val {
		// a fresh slice holding the bytes written so far (aliasing with later writes ignored)
		id := a[0].L[0]
		arr := tr.vc.Def("g_arr", tr.ghostArr(id))
		ln := Select(arr, Int(-1))
		tr.vc.Assume(And(Le(Int(0), ln), Le(ln, maxLen)))
		obj := tr.newObject("bufbytes")
		body := tr.vc.Def("buf_body", Store(Store(arr, Int(-1), Int(0)), Int(-2), Int(0)))
		tr.st.Mem = tr.vc.Def("mem", Store(tr.st.Mem, obj, body))
		cp := tr.vc.Fresh("buf_cap", SInt)
		tr.vc.Assume(And(Le(ln, cp), Le(cp, maxLen)))
		// a buffer that was never written to hands out a nil slice; an emptied one does not:
		// with no bytes in it the result may be either
		some := tr.vc.Fresh("buf_nonnil", SBool)
		o := tr.vc.Def("buf_obj", Ite(Or(Lt(Int(0), ln), some), obj, Int(0)))
		c := tr.vc.Def("buf_cap", Ite(Eq(o, Int(0)), Int(0), cp))
		return Val{L: []*Term{o, Int(0), ln, c}}
	}
	mk(bb+"Bytes", bytesOf)
}

// ghostInvoke models interface method calls on writers/hashers. ok=false: not modelled.
func (tr *FnTr) ghostInvoke(x *ssa.Call, cc *ssa.CallCommon) (Val, bool) {
	recvT := cc.Value.Type().String()
	isWriterLike := strings.Contains(recvT, "hash.Hash") || strings.Contains(recvT, "io.Writer") || strings.Contains(recvT, "io.ByteWriter")
	if !isWriterLike {
		return Val{}, false
	}
	id := tr.val(cc.Value).L[0]
	args := tr.args(cc)
	tr.usedModel("ghost byte buffer for hashers / bytes.Buffer / io.Writer; digests are uninterpreted functions of the bytes written")
	switch cc.Method.Name() {
	case "Write":
		tr.check("nil", Ne(id, Int(0)), x.Pos())
		tr.ghostWriteSlice(id, args[0])
		return Val{L: []*Term{args[0].L[2], Int(0)}}, true
	case "WriteByte":
		tr.ghostAppendBytes(id, []*Term{args[0].L[0]})
		return Val{L: []*Term{Int(0)}}, true
	case "Sum":
		return tr.ghostSum(id, x, &args[0]), true
	case "Reset":
		arr := tr.ghostArr(id)
		_ = arr
		tr.ghostNew(id, tr.ghostKind(id))
		return Val{}, true
	case "Size", "BlockSize":
		v := tr.freshVal(tr.vname(x), x.Type(), nil)
		tr.vc.Assume(And(Le(Int(1), v.L[0]), Le(v.L[0], Int(128))))
		return v, true
	}
	return Val{}, false
}

// binaryWrite models encoding/binary.Write(w, order, data) for fixed-width integers.
func (tr *FnTr) binaryWrite(x ssa.Value, cc *ssa.CallCommon) (Val, bool) {
	if len(cc.Args) != 3 {
		return Val{}, false
	}
	mi, ok := cc.Args[2].(*ssa.MakeInterface)
	if !ok || !isInteger(mi.X.Type()) {
		return Val{}, false
	}
	be := strings.Contains(fmt.Sprint(cc.Args[1]), "BigEndian") || strings.Contains(cc.Args[1].Type().String(), "bigEndian")
	if o, ok := cc.Args[1].(*ssa.MakeInterface); ok {
		be = strings.Contains(o.X.Type().String(), "bigEndian")
	}
	bits, _ := intBits(basicOf(mi.X.Type()))
	v := tr.val(mi.X).L[0]
	v = wrap(v, types.Typ[map[uint]types.BasicKind{8: types.Uint8, 16: types.Uint16, 32: types.Uint32, 64: types.Uint64}[bits]])
	id := tr.val(cc.Args[0]).L[0]
	tr.usedModel("encoding/binary.Write of a fixed-width integer into a ghost byte buffer")
	tr.ghostAppendBytes(id, tr.intBytes(v, int(bits/8), be))
	return Val{L: []*Term{Int(0)}}, true
}
