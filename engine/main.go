package main

import (
	"encoding/json"
	"flag"
	"fmt"
	"os"
	"path/filepath"
	"regexp"
	"runtime"
	"sort"
	"strings"
	"time"
)

func findContractDirs(repo string) []string {
	var dirs []string
	seen := map[string]bool{}
	filepath.Walk(repo, func(p string, info os.FileInfo, err error) error {
		if err != nil {
			return nil
		}
		if info.IsDir() && (info.Name() == ".git" || info.Name() == "website") {
			return filepath.SkipDir
		}
		if !info.IsDir() && strings.HasPrefix(info.Name(), "zz_verif_contracts") && strings.HasSuffix(info.Name(), ".go") {
			d := filepath.Dir(p)
			if !seen[d] {
				seen[d] = true
				rel, _ := filepath.Rel(repo, d)
				dirs = append(dirs, "./"+rel)
			}
		}
		return nil
	})
	sort.Strings(dirs)
	return dirs
}

func main() {
	if len(os.Args) < 2 {
		fmt.Fprintln(os.Stderr, "usage: gocv check|dump|baseline|replay ...")
		os.Exit(2)
	}
	switch os.Args[1] {
	case "check", "baseline":
		os.Exit(cmdCheck(os.Args[1], os.Args[2:]))
	case "dump":
		os.Exit(cmdDump(os.Args[2:]))
	case "replay":
		os.Exit(cmdReplay(os.Args[2:]))
	default:
		fmt.Fprintln(os.Stderr, "unknown command", os.Args[1])
		os.Exit(2)
	}
}

type checkFlags struct {
	noreplay                              bool
	prop, tier, fn, repo, verif, keep, only string
	timeout                               int
	verbose                               bool
	workers                               int
	refuteK                               int
}

func parseFlags(args []string) *checkFlags {
	cf := &checkFlags{}
	fs := flag.NewFlagSet("gocv", flag.ExitOnError)
	fs.StringVar(&cf.prop, "prop", "", "property id")
	fs.StringVar(&cf.tier, "tier", "quick", "quick|thorough")
	fs.StringVar(&cf.fn, "func", "", "regexp on function/lemma names")
	fs.StringVar(&cf.repo, "repo", "/repo", "repository root")
	fs.StringVar(&cf.verif, "verif", "/verif", "verification root")
	fs.StringVar(&cf.keep, "keep", "", "keep SMT files in this directory")
	fs.StringVar(&cf.only, "solver", "", "use only this solver")
	fs.IntVar(&cf.timeout, "timeout", 0, "per-obligation timeout (s)")
	fs.IntVar(&cf.workers, "j", 0, "parallel obligations")
	fs.BoolVar(&cf.verbose, "v", false, "verbose")
	fs.BoolVar(&cf.noreplay, "noreplay", false, "do not search for a replayable input when an obligation fails")
	fs.IntVar(&cf.refuteK, "refute", 0, "debug: generate the bounded counterexample-search VC with this unroll bound")
	fs.Parse(args)
	if cf.timeout == 0 {
		cf.timeout = 20
		if cf.tier == "thorough" {
			cf.timeout = 120
		}
	}
	if cf.workers == 0 {
		cf.workers = runtime.NumCPU() / 2
		if cf.workers < 2 {
			cf.workers = 2
		}
	}
	return cf
}

func loadEngine(cf *checkFlags) (*Eng, error) {
	t0 := time.Now()
	eng := NewEng(cf.repo)
	dirs := findContractDirs(cf.repo)
	if len(dirs) == 0 {
		return nil, fmt.Errorf("no contract files (zz_verif_contracts*.go) found under %s", cf.repo)
	}
	if err := eng.Load(dirs); err != nil {
		return nil, err
	}
	eng.loadSecs = time.Since(t0).Seconds()
	return eng, nil
}

func generate(eng *Eng, cf *checkFlags) []*FuncResult {
	fs, ls := eng.Targets(cf.prop)
	var re *regexp.Regexp
	if cf.fn != "" {
		re = regexp.MustCompile(cf.fn)
	}
	var results []*FuncResult
	for _, f := range fs {
		full := shortPkg(f.Pkg) + "." + f.Name
		if re != nil && !re.MatchString(full) {
			continue
		}
		if f.Assumed || f.Inline {
			results = append(results, &FuncResult{Name: full, Props: f.Props, Assumed: f.Assumed})
			continue
		}
		if cf.refuteK > 0 {
			results = append(results, eng.RefuteFunc(f, cf.refuteK))
			continue
		}
		results = append(results, eng.VerifyFunc(f))
	}
	for _, l := range ls {
		full := shortPkg(l.Pkg) + ".lemma." + l.Name
		if re != nil && !re.MatchString(full) {
			continue
		}
		if l.Axiom {
			continue
		}
		results = append(results, eng.VerifyLemma(l))
	}
	return results
}

func cmdDump(args []string) int {
	cf := parseFlags(args)
	eng, err := loadEngine(cf)
	if err != nil {
		fmt.Fprintln(os.Stderr, err)
		return 2
	}
	for _, r := range generate(eng, cf) {
		if r.Err != "" {
			fmt.Printf("; %s: %s\n", r.Name, r.Err)
			continue
		}
		if r.VC == nil {
			continue
		}
		for _, ob := range r.VC.Obs {
			fmt.Printf("; ===== %s (%s)\n%s\n", ob.Name, ob.Pos, ob.Script(0, true))
		}
	}
	return 0
}

// cmdReplay re-runs the test recorded in a replay file against the current tree.
func cmdReplay(args []string) int {
	var path string
	repo := "/repo"
	for i := 0; i < len(args); i++ {
		switch args[i] {
		case "-repo":
			i++
			repo = args[i]
		case "-verif":
			i++
		default:
			path = args[i]
		}
	}
	var rp map[string]interface{}
	if err := loadJSON(path, &rp); err != nil {
		fmt.Fprintln(os.Stderr, err)
		return 2
	}
	fmt.Printf("obligation: %v\nresult: %v (%v)\nrecorded: %v\n", rp["obligation"], rp["result"], rp["solver"], rp["replay"])
	src, _ := rp["test_source"].(string)
	dir, _ := rp["pkg_dir"].(string)
	if src == "" || dir == "" {
		fmt.Println("no executable replay recorded (no-failing-input-found); solver output:")
		fmt.Println(rp["solver_output"])
		return 0
	}
	ro, out, err := runReplayTest(repo, dir, src)
	if err != nil {
		fmt.Println("replay did not run:", err)
		fmt.Println(out)
		return 2
	}
	b, _ := json.MarshalIndent(ro, "", " ")
	fmt.Printf("outcome on the current tree:\n%s\n", b)
	failed := ro.Panicked
	for _, v := range ro.Clauses {
		if v == "false" {
			failed = true
		}
	}
	if failed {
		return 1
	}
	return 0
}
