package main

// Polynomial normal forms over SMT terms, used by the mod-witness tactic (DESIGN 2.3):
// a goal `t ≡ 0 (mod m)` over limb arithmetic is turned into the linear-looking goal
// `t = m·K + Rest ∧ Rest = 0`, where K and Rest are computed here by expanding the
// definitional equalities (x mod c = x − c·(x div c)) and splitting every coefficient
// into a multiple of m and a centred remainder. The solver checks the identity and the
// range argument for Rest; nothing computed here is trusted.

import (
	"fmt"
	"math/big"
	"os"
	"sort"
	"strings"
)

type mono struct {
	atoms []string // sorted atom keys (with multiplicity)
}

type poly struct {
	coef  map[string]*big.Int // monomial key -> coefficient
	atoms map[string][]*Term  // monomial key -> atom terms
	fail  string
}

func newPoly() *poly { return &poly{coef: map[string]*big.Int{}, atoms: map[string][]*Term{}} }

func monoKey(ts []*Term) string {
	ks := make([]string, len(ts))
	for i, t := range ts {
		ks[i] = t.Key()
	}
	sort.Strings(ks)
	return strings.Join(ks, "*")
}

func sortAtoms(ts []*Term) []*Term {
	out := append([]*Term{}, ts...)
	sort.Slice(out, func(i, j int) bool { return out[i].Key() < out[j].Key() })
	return out
}

func (p *poly) add(c *big.Int, atoms []*Term) {
	if c.Sign() == 0 {
		return
	}
	atoms = sortAtoms(atoms)
	k := monoKey(atoms)
	if old, ok := p.coef[k]; ok {
		old.Add(old, c)
		if old.Sign() == 0 {
			delete(p.coef, k)
			delete(p.atoms, k)
		}
		return
	}
	p.coef[k] = new(big.Int).Set(c)
	p.atoms[k] = atoms
}

func (p *poly) addPoly(q *poly, scale *big.Int) {
	for k, c := range q.coef {
		p.add(new(big.Int).Mul(c, scale), q.atoms[k])
	}
	if q.fail != "" {
		p.fail = q.fail
	}
}

func polyMul(a, b *poly) *poly {
	out := newPoly()
	for ka, ca := range a.coef {
		for kb, cb := range b.coef {
			atoms := append(append([]*Term{}, a.atoms[ka]...), b.atoms[kb]...)
			if len(atoms) > 6 {
				out.fail = "degree too high"
				return out
			}
			out.add(new(big.Int).Mul(ca, cb), atoms)
		}
	}
	if len(out.coef) > 20000 {
		out.fail = "polynomial too large"
	}
	return out
}

// polyNF normalises an Int term. memo is keyed by term pointer keys.
type polyCtx struct {
	memo     map[string]*poly
	monoDefs map[string][2]*Term // monomial symbol name -> factors
	steps    int
}

func (pc *polyCtx) nf(t *Term) *poly {
	k := t.Key()
	if p, ok := pc.memo[k]; ok {
		return p
	}
	pc.steps++
	p := pc.nf1(t)
	pc.memo[k] = p
	return p
}

func (pc *polyCtx) atom(t *Term) *poly {
	p := newPoly()
	p.add(big.NewInt(1), []*Term{t})
	return p
}

func (pc *polyCtx) nf1(t *Term) *poly {
	if pc.steps > 200000 {
		p := newPoly()
		p.fail = "normalisation too large"
		return p
	}
	if c := t.IntConst(); c != nil {
		p := newPoly()
		p.add(c, nil)
		return p
	}
	switch t.Op {
	case "sym":
		if f, ok := pc.monoDefs[t.Name]; ok {
			return polyMul(pc.nf(f[0]), pc.nf(f[1]))
		}
		if d, ok := curDefs[t.Name]; ok && d.Sort == SInt {
			return pc.nf(d)
		}
		return pc.atom(t)
	case "+":
		p := newPoly()
		for _, a := range t.Args {
			p.addPoly(pc.nf(a), big.NewInt(1))
		}
		return p
	case "-":
		p := newPoly()
		if len(t.Args) == 1 {
			p.addPoly(pc.nf(t.Args[0]), big.NewInt(-1))
			return p
		}
		p.addPoly(pc.nf(t.Args[0]), big.NewInt(1))
		for _, a := range t.Args[1:] {
			p.addPoly(pc.nf(a), big.NewInt(-1))
		}
		return p
	case "*":
		p := pc.nf(t.Args[0])
		for _, a := range t.Args[1:] {
			p = polyMul(p, pc.nf(a))
			if p.fail != "" {
				return p
			}
		}
		return p
	case "mod":
		// x mod c = x - c*(x div c) for a constant c > 0
		if c := t.Args[1].IntConst(); c != nil && c.Sign() > 0 {
			p := newPoly()
			p.addPoly(pc.nf(t.Args[0]), big.NewInt(1))
			p.add(new(big.Int).Neg(c), []*Term{canonDiv(t.Args[0], t.Args[1])})
			return p
		}
	case "div":
		return pc.atom(canonDiv(t.Args[0], t.Args[1]))
	}
	// ite, select, uninterpreted applications: opaque atoms, with definitions of index
	// terms expanded so that the same memory cell always yields the same atom
	return pc.atom(pc.expandFull(t, 0))
}

// expandFull rebuilds a term with every named Int definition inside it expanded.
func (pc *polyCtx) expandFull(t *Term, depth int) *Term {
	if depth > 40 {
		return t
	}
	switch t.Op {
	case "const", "zeroarr":
		return t
	case "sym":
		if d, ok := curDefs[t.Name]; ok && (d.Op == "+" || d.Op == "sym" || d.Op == "const" || d.Op == "*" || d.Op == "select") {
			return pc.expandFull(d, depth+1)
		}
		return t
	case "+":
		args := make([]*Term, len(t.Args))
		for i, a := range t.Args {
			args[i] = pc.expandFull(a, depth+1)
		}
		return Add(args...)
	case "*":
		if len(t.Args) == 2 {
			return Mul(pc.expandFull(t.Args[0], depth+1), pc.expandFull(t.Args[1], depth+1))
		}
	case "select":
		return mk("select", t.Sort, pc.expandFull(t.Args[0], depth+1), pc.expandFull(t.Args[1], depth+1))
	}
	return t
}

// canonDiv rebuilds the div term so that mod and div of the same operands share an atom.
func canonDiv(x, c *Term) *Term { return mk("div", SInt, x, c) }

// termOfMono rebuilds an SMT term for a product of atoms.
func termOfAtoms(atoms []*Term) *Term {
	if len(atoms) == 0 {
		return Int(1)
	}
	r := atoms[0]
	for _, a := range atoms[1:] {
		r = mk("*", SInt, r, a)
	}
	return r
}

// modWitness splits X into m*K + Rest. ok is false if normalisation failed.
func modWitness(x *Term, m *big.Int, monoDefs map[string][2]*Term) (k, rest *Term, ok bool, why string) {
	pc := &polyCtx{memo: map[string]*poly{}, monoDefs: monoDefs}
	p := pc.nf(x)
	if p.fail != "" {
		return nil, nil, false, p.fail
	}
	if os.Getenv("GOCV_DEBUG_POLY") != "" {
		fmt.Fprintf(os.Stderr, "modWitness: %d monomials, %d steps\n", len(p.coef), pc.steps)
		for key, c := range p.coef {
			r := new(big.Int).Mod(c, m)
			if r.Sign() != 0 {
				ks := key
				if len(ks) > 160 {
					ks = ks[:160]
				}
				fmt.Fprintf(os.Stderr, "  nondiv coef %s  [%s]\n", c.String(), ks)
			}
		}
	}
	half := new(big.Int).Rsh(m, 1)
	var ks, rs []*Term
	keys := make([]string, 0, len(p.coef))
	for key := range p.coef {
		keys = append(keys, key)
	}
	sort.Strings(keys)
	for _, key := range keys {
		c := p.coef[key]
		q, r := new(big.Int), new(big.Int)
		q.DivMod(c, m, r)
		if r.Cmp(half) > 0 { // centred remainder
			r.Sub(r, m)
			q.Add(q, big.NewInt(1))
		}
		at := termOfAtoms(p.atoms[key])
		if q.Sign() != 0 {
			ks = append(ks, mk("*", SInt, IntB(q), at))
		}
		if r.Sign() != 0 {
			rs = append(rs, mk("*", SInt, IntB(r), at))
		}
	}
	sum := func(ts []*Term) *Term {
		if len(ts) == 0 {
			return Int(0)
		}
		if len(ts) == 1 {
			return ts[0]
		}
		return mk("+", SInt, ts...)
	}
	return sum(ks), sum(rs), true, ""
}

// polyLite normalises only the ring structure (+, -, *, constants) of a term, looking
// through named definitions of sums/products/loads; every other subterm is an atom given
// by atomOf. Used to distribute products over sums before nonlinear abstraction.
func polyLite(t *Term, atomOf func(*Term) *Term, depth int) *poly {
	if c := t.IntConst(); c != nil {
		p := newPoly()
		p.add(c, nil)
		return p
	}
	if depth > 60 {
		p := newPoly()
		p.add(big.NewInt(1), []*Term{atomOf(t)})
		return p
	}
	switch t.Op {
	case "sym":
		if d, ok := curDefs[t.Name]; ok && d.Sort == SInt && (d.Op == "+" || d.Op == "*" || d.Op == "sym" || d.Op == "const" || d.Op == "select" || d.Op == "-") {
			return polyLite(d, atomOf, depth+1)
		}
	case "+":
		p := newPoly()
		for _, a := range t.Args {
			p.addPoly(polyLite(a, atomOf, depth+1), big.NewInt(1))
		}
		return p
	case "-":
		p := newPoly()
		if len(t.Args) == 1 {
			p.addPoly(polyLite(t.Args[0], atomOf, depth+1), big.NewInt(-1))
			return p
		}
		p.addPoly(polyLite(t.Args[0], atomOf, depth+1), big.NewInt(1))
		for _, a := range t.Args[1:] {
			p.addPoly(polyLite(a, atomOf, depth+1), big.NewInt(-1))
		}
		return p
	case "*":
		p := polyLite(t.Args[0], atomOf, depth+1)
		for _, a := range t.Args[1:] {
			p = polyMul(p, polyLite(a, atomOf, depth+1))
			if p.fail != "" {
				break
			}
		}
		return p
	}
	p := newPoly()
	p.add(big.NewInt(1), []*Term{atomOf(t)})
	return p
}
