package main

// Trusted models of library functions (DESIGN 2.2). Every model used is listed in the
// evidence file of the check that used it.

import (
	"strings"
	"fmt"
	"go/token"

	"golang.org/x/tools/go/ssa"
)

type libModel func(tr *FnTr, x ssa.Value, args []Val, cc *ssa.CallCommon) Val

var libModels = map[string]libModel{}

// libEffects: (writes, allocs) of external functions known to the engine.
var libEffects = map[string][2]bool{}

func init() {

	for _, end := range []string{"littleEndian", "bigEndian"} {
		be := end == "bigEndian"
		for _, n := range []int{2, 4, 8} {
			n := n
			name := fmt.Sprintf("encoding/binary.(%s).Uint%d", end, n*8)
			libModels[name] = func(tr *FnTr, x ssa.Value, args []Val, cc *ssa.CallCommon) Val {
				tr.usedModel(name)
				return tr.modelGetUint(args[len(args)-1], n, be, posOf(x))
			}
			libEffects[name] = [2]bool{false, false}
			pname := fmt.Sprintf("encoding/binary.(%s).PutUint%d", end, n*8)
			libModels[pname] = func(tr *FnTr, x ssa.Value, args []Val, cc *ssa.CallCommon) Val {
				tr.usedModel(pname)
				tr.modelPutUint(args[len(args)-2], args[len(args)-1].L[0], n, be, posOf(x))
				return Val{}
			}
			libEffects[pname] = [2]bool{true, false}
		}
	}
	for _, n := range []string{"errors.New", "fmt.Errorf"} {
		n := n
		libModels[n] = func(tr *FnTr, x ssa.Value, args []Val, cc *ssa.CallCommon) Val {
			tr.usedModel(n + " (returns a non-nil error, touches no visible memory)")
			t := tr.vc.Fresh("err", SInt)
			tr.vc.Assume(Lt(Int(0), t))
			return Val{L: []*Term{t}}
		}
		libEffects[n] = [2]bool{false, true}
	}
	// functions whose only effect visible to the verified code is a fresh result
	for _, n := range []string{"fmt.Sprint", "fmt.Sprintf", "fmt.Sprintln", "fmt.Print", "fmt.Printf", "fmt.Println",
		"encoding/hex.EncodeToString", "strconv.Itoa", "strconv.FormatInt", "strconv.FormatUint", "strings.Repeat",
		"time.Now", "time.(Time).Unix", "time.(Time).UnixNano", "time.(Time).Sub", "time.(Time).After", "time.(Time).Before", "time.(Time).Add", "time.(Duration).String", "sync/atomic.(*Bool).Load", "sync/atomic.(*Uint32).Load", "sync/atomic.(*Uint64).Load", "sync/atomic.(*Int32).Load", "sync/atomic.(*Int64).Load", "time.Since"} {
		n := n
		libModels[n] = func(tr *FnTr, x ssa.Value, args []Val, cc *ssa.CallCommon) Val {
			tr.usedModel(n + " (fresh result, no effect on visible memory)")
			if x == nil {
				return Val{}
			}
			return tr.freshVal(tr.vname(x), x.Type(), nil)
		}
		libEffects[n] = [2]bool{false, true}
	}
	// sync.Mutex / sync.RWMutex: a ghost lock counter per mutex address (sequential reading).
	// Unlock of a mutex that is not held is a fatal error in Go: obligation.
	for _, n := range []string{"sync.(*Mutex).Lock", "sync.(*RWMutex).Lock", "sync.(*RWMutex).RLock"} {
		n := n
		libModels[n] = func(tr *FnTr, x ssa.Value, args []Val, cc *ssa.CallCommon) Val {
			tr.usedModel("sync mutex as a ghost lock counter (sequential semantics)")
			tr.lockOpX(args[0], 1, x, !strings.HasSuffix(n, "RLock"))
			return Val{}
		}
		libEffects[n] = [2]bool{false, false}
	}
	for _, n := range []string{"sync.(*Mutex).Unlock", "sync.(*RWMutex).Unlock", "sync.(*RWMutex).RUnlock"} {
		n := n
		libModels[n] = func(tr *FnTr, x ssa.Value, args []Val, cc *ssa.CallCommon) Val {
			tr.usedModel("sync mutex as a ghost lock counter (sequential semantics)")
			tr.lockOp(args[0], -1, x)
			return Val{}
		}
		libEffects[n] = [2]bool{false, false}
	}
	// parsing/splitting helpers: results are fresh values with the obvious shape facts
	libModels["strings.Split"] = func(tr *FnTr, x ssa.Value, args []Val, cc *ssa.CallCommon) Val {
		tr.usedModel("strings.Split (fresh []string with at least one element)")
		obj := tr.newObject("split")
		na := tr.vc.Fresh("split_arr", SArr)
		tr.st.Mem = tr.vc.Def("mem", Store(tr.st.Mem, obj, na))
		n := tr.vc.Fresh("split_len", SInt)
		tr.vc.Assume(And(Le(Int(1), n), Le(n, maxLen)))
		return Val{L: []*Term{obj, Int(0), n, n}}
	}
	libEffects["strings.Split"] = [2]bool{false, true}
	for _, n := range []string{"strconv.ParseUint", "strconv.ParseInt", "strconv.Atoi", "strings.Trim", "strings.TrimSpace", "strings.ToLower", "strings.ToUpper"} {
		n := n
		libModels[n] = func(tr *FnTr, x ssa.Value, args []Val, cc *ssa.CallCommon) Val {
			tr.usedModel(n + " (fresh, typed result; no effect on visible memory)")
			return tr.freshVal(tr.vname(x), x.Type(), nil)
		}
		libEffects[n] = [2]bool{false, true}
	}
	libModels["os.Exit"] = func(tr *FnTr, x ssa.Value, args []Val, cc *ssa.CallCommon) Val {
		tr.usedModel("os.Exit does not return")
		tr.st.Reach = tFalse
		return Val{}
	}
	libEffects["os.Exit"] = [2]bool{false, false}
	libModels["strings.HasPrefix"] = func(tr *FnTr, x ssa.Value, args []Val, cc *ssa.CallCommon) Val {
		tr.usedModel("strings.HasPrefix (pure, verdict unconstrained)")
		return Val{L: []*Term{tr.vc.Fresh("hasprefix", SBool)}}
	}
	libEffects["strings.HasPrefix"] = [2]bool{false, false}
	libModels["bytes.Equal"] = func(tr *FnTr, x ssa.Value, args []Val, cc *ssa.CallCommon) Val {
		tr.usedModel("bytes.Equal")
		return Val{L: []*Term{tr.bytesEqual(args[0], args[1])}}
	}
	libEffects["bytes.Equal"] = [2]bool{false, false}
	libModels["bytes.HasPrefix"] = func(tr *FnTr, x ssa.Value, args []Val, cc *ssa.CallCommon) Val {
		tr.usedModel("bytes.HasPrefix (len(s) >= len(prefix) and the first len(prefix) bytes agree)")
		s, p := args[0], args[1]
		head := Val{T: s.T, L: []*Term{s.L[0], s.L[1], p.L[2], p.L[2]}}
		return Val{L: []*Term{tr.vc.Def("has_prefix", And(Ge(s.L[2], p.L[2]), tr.bytesEqual(head, p)))}}
	}
	libEffects["bytes.HasPrefix"] = [2]bool{false, false}
	libModels["math/bits.Mul64"] = func(tr *FnTr, x ssa.Value, args []Val, cc *ssa.CallCommon) Val {
		tr.usedModel("math/bits.Mul64")
		p := tr.vc.Def("mul64", tr.mulTerm(args[0].L[0], args[1].L[0]))
		hi := tr.vc.Def("mul64_hi", Div(p, Pow2(64)))
		lo := tr.vc.Def("mul64_lo", Mod(p, Pow2(64)))
		return Val{L: []*Term{hi, lo}}
	}
	libEffects["math/bits.Mul64"] = [2]bool{false, false}
	libModels["math/bits.Add64"] = func(tr *FnTr, x ssa.Value, args []Val, cc *ssa.CallCommon) Val {
		tr.usedModel("math/bits.Add64")
		s := tr.vc.Def("add64", Add(args[0].L[0], args[1].L[0], args[2].L[0]))
		if tr.top.ct != nil && tr.top.ct.NoOverflow && carryDiscarded(x) {
			// the carry-out is thrown away: it must be zero
			ok := Lt(s, Pow2(64))
			tr.vc.Oblige(tr.prefix+"nooverflow", "", Implies(tr.st.Reach, ok), tr.pos(posOf(x)))
			tr.st.Reach = tr.vc.Def("reach", And(tr.st.Reach, ok))
			return Val{L: []*Term{s, Int(0)}}
		}
		// carry-in > 1 is undefined behaviour per the documentation; the real code returns
		// a wrapped sum, which is what mod/div give.
		sum := tr.vc.Def("add64_sum", Mod(s, Pow2(64)))
		co := tr.vc.Def("add64_carry", Div(s, Pow2(64)))
		return Val{L: []*Term{sum, co}}
	}
	libEffects["math/bits.Add64"] = [2]bool{false, false}
	libModels["math/bits.Sub64"] = func(tr *FnTr, x ssa.Value, args []Val, cc *ssa.CallCommon) Val {
		tr.usedModel("math/bits.Sub64")
		s := tr.vc.Def("sub64", Sub(Sub(args[0].L[0], args[1].L[0]), args[2].L[0]))
		diff := tr.vc.Def("sub64_diff", Mod(s, Pow2(64)))
		bo := tr.vc.Def("sub64_borrow", Ite(Lt(s, Int(0)), Int(1), Int(0)))
		return Val{L: []*Term{diff, bo}}
	}
	libEffects["math/bits.Sub64"] = [2]bool{false, false}
}

func posOf(x ssa.Value) token.Pos {
	if x == nil {
		return token.NoPos
	}
	return x.Pos()
}

func (tr *FnTr) usedModel(name string) {
	tr.vc.Assumed = appendUniq(tr.vc.Assumed, "trusted library model: "+name)
}

func (tr *FnTr) modelGetUint(s Val, n int, be bool, p token.Pos) Val {
	// the library indexes b[n-1] first: panics iff len < n
	tr.check("index", Le(Int(int64(n)), s.L[2]), p)
	arr := tr.vc.Def("bytes", Select(tr.st.Mem, s.L[0]))
	var parts []*Term
	for i := 0; i < n; i++ {
		sh := uint(8 * i)
		if be {
			sh = uint(8 * (n - 1 - i))
		}
		parts = append(parts, Mul(Select(arr, Add(s.L[1], Int(int64(i)))), Pow2(sh)))
	}
	v := tr.vc.Def("uintle", Add(parts...))
	// typing fact of the bytes read
	for i := 0; i < n; i++ {
		c := Select(arr, Add(s.L[1], Int(int64(i))))
		tr.vc.Assume(And(Le(Int(0), c), Le(c, Int(255))))
	}
	return Val{L: []*Term{v}}
}

func (tr *FnTr) modelPutUint(s Val, v *Term, n int, be bool, p token.Pos) {
	tr.check("index", Le(Int(int64(n)), s.L[2]), p)
	tr.writeCheck(s.L[0], s.L[1], Add(s.L[1], Int(int64(n))))
	arr := Select(tr.st.Mem, s.L[0])
	// the bytes are the unique base-256 digits of v: linear characterisation
	var parts []*Term
	for i := 0; i < n; i++ {
		sh := uint(8 * i)
		if be {
			sh = uint(8 * (n - 1 - i))
		}
		c := tr.vc.Fresh("putb", SInt)
		tr.vc.Assume(And(Le(Int(0), c), Le(c, Int(255))))
		parts = append(parts, Mul(c, Pow2(sh)))
		arr = Store(arr, Add(s.L[1], Int(int64(i))), c)
	}
	tr.vc.Assume(Eq(Add(parts...), v))
	tr.st.Mem = tr.vc.Def("mem", Store(tr.st.Mem, s.L[0], arr))
}

// bytesEqual: extensional equality of two byte slices in the current memory.
func (tr *FnTr) bytesEqual(a, b Val) *Term {
	aa := tr.vc.Def("eq_a", Select(tr.st.Mem, a.L[0]))
	ba := tr.vc.Def("eq_b", Select(tr.st.Mem, b.L[0]))
	if tr.top.refute {
		const bound = 40
		tr.st.Reach = tr.vc.Def("reach", And(tr.st.Reach, Le(a.L[2], Int(bound))))
		cs := []*Term{Eq(a.L[2], b.L[2])}
		for k := int64(0); k < bound; k++ {
			cs = append(cs, Implies(Lt(Int(k), a.L[2]), Eq(Select(aa, Add(a.L[1], Int(k))), Select(ba, Add(b.L[1], Int(k))))))
		}
		return tr.vc.Def("bytes_eq", And(cs...))
	}
	if ca, cb := a.L[2].IntConst(), b.L[2].IntConst(); ca != nil && cb != nil && ca.IsInt64() && ca.Int64() <= 80 {
		// slices of a fixed small length: a plain conjunction, no quantifier
		if ca.Cmp(cb) != 0 {
			return tFalse
		}
		var cs []*Term
		for k := int64(0); k < ca.Int64(); k++ {
			cs = append(cs, Eq(Select(aa, Add(a.L[1], Int(k))), Select(ba, Add(b.L[1], Int(k)))))
		}
		return tr.vc.Def("bytes_eq", And(cs...))
	}
	r := tr.vc.Fresh("bytes_eq", SBool)
	j := Sym("j!q", SInt)
	same := Forall([]*Term{j}, Implies(And(Le(Int(0), j), Lt(j, a.L[2])), Eq(Select(aa, Add(a.L[1], j)), Select(ba, Add(b.L[1], j)))))
	tr.vc.Assume(Eq(r, And(Eq(a.L[2], b.L[2]), same)))
	return r
}

// carryDiscarded: the second result of the call is never used.
func carryDiscarded(x ssa.Value) bool {
	if x == nil {
		return false
	}
	refs := x.Referrers()
	if refs == nil {
		return false
	}
	for _, r := range *refs {
		if ex, ok := r.(*ssa.Extract); ok && ex.Index == 1 {
			if rr := ex.Referrers(); rr != nil {
				for _, u := range *rr {
					if _, dbg := u.(*ssa.DebugRef); !dbg {
						return false
					}
				}
			}
		}
	}
	return true
}

func (tr *FnTr) lockOp(mu Val, delta int64, x ssa.Value) { tr.lockOpX(mu, delta, x, false) }

// lockOpX: excl marks an exclusive Lock - taking it while this (sequentially read) code
// already holds the mutex blocks forever, so "not held" is an obligation.
func (tr *FnTr) lockOpX(mu Val, delta int64, x ssa.Value, excl bool) {
	obj, off := mu.L[0], mu.L[1]
	tr.check("nil", Ne(obj, Int(0)), posOf(x))
	top := tr.top
	top.lockSites = append(top.lockSites, [2]*Term{obj, off})
	cur := Select(Select(tr.st.Locks, obj), off)
	if excl && delta > 0 && !tr.excMode {
		tr.vc.Oblige(tr.prefix+"lock.not_held", "", Implies(tr.st.Reach, Eq(cur, Int(0))), tr.pos(posOf(x)))
	}
	if delta < 0 {
		tr.vc.Oblige(tr.prefix+"lock.unlock_held", "", Implies(tr.st.Reach, Gt(cur, Int(0))), tr.pos(posOf(x)))
	}
	tr.st.Locks = tr.vc.Def("locks", Store(tr.st.Locks, obj, Store(Select(tr.st.Locks, obj), off, Add(cur, Int(delta)))))
}
