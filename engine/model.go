package main

// Interactive model session with z3 (-in): after a `sat` answer the replay generator asks
// for the values of exactly the terms it needs (parameter leaves, memory cells).

import (
	"bufio"
	"fmt"
	"io"
	"math/big"
	"os/exec"
	"strings"
	"time"
)

type ModelSession struct {
	cmd   *exec.Cmd
	in    io.WriteCloser
	out   *bufio.Reader
	cache map[string]string
}

// startModel feeds the script (without check-sat) and returns the verdict.
func startModel(script string, timeoutS int) (*ModelSession, string, error) {
	cmd := exec.Command("z3-new", "-in", fmt.Sprintf("-t:%d", timeoutS*1000))
	in, err := cmd.StdinPipe()
	if err != nil {
		return nil, "", err
	}
	outp, err := cmd.StdoutPipe()
	if err != nil {
		return nil, "", err
	}
	cmd.Stderr = nil
	if err := cmd.Start(); err != nil {
		return nil, "", err
	}
	ms := &ModelSession{cmd: cmd, in: in, out: bufio.NewReader(outp), cache: map[string]string{}}
	go func() {
		time.Sleep(time.Duration(timeoutS+30) * time.Second)
		cmd.Process.Kill()
	}()
	io.WriteString(in, script)
	io.WriteString(in, "\n(check-sat)\n")
	line, err := ms.readSexpOrWord()
	if err != nil {
		ms.Close()
		return nil, "", err
	}
	v := strings.TrimSpace(line)
	if v != "sat" {
		ms.Close()
		return nil, v, nil
	}
	return ms, "sat", nil
}

func (ms *ModelSession) Close() {
	if ms == nil {
		return
	}
	io.WriteString(ms.in, "(exit)\n")
	ms.in.Close()
	ms.cmd.Process.Kill()
	ms.cmd.Wait()
}

// readSexpOrWord reads one balanced s-expression or one bare word/line.
func (ms *ModelSession) readSexpOrWord() (string, error) {
	var sb strings.Builder
	depth := 0
	started := false
	for {
		r, _, err := ms.out.ReadRune()
		if err != nil {
			return sb.String(), err
		}
		if !started {
			if r == ' ' || r == '\n' || r == '\t' || r == '\r' {
				continue
			}
			started = true
		}
		sb.WriteRune(r)
		switch r {
		case '(':
			depth++
		case ')':
			depth--
			if depth == 0 {
				return sb.String(), nil
			}
		case '\n':
			if depth == 0 {
				return sb.String(), nil
			}
		}
	}
}

// Raw returns the model value of a term as SMT text.
func (ms *ModelSession) Raw(t *Term) (string, error) {
	k := t.String()
	if v, ok := ms.cache[k]; ok {
		return v, nil
	}
	fmt.Fprintf(ms.in, "(get-value (%s))\n", k)
	resp, err := ms.readSexpOrWord()
	if err != nil {
		return "", err
	}
	resp = strings.TrimSpace(resp)
	if strings.HasPrefix(resp, "(error") {
		return "", fmt.Errorf("solver: %s", resp)
	}
	// ((term value))
	inner := strings.TrimSuffix(strings.TrimPrefix(resp, "(("), "))")
	// value is the suffix after the term text; find by matching parens from the end
	val := lastSexp(inner)
	ms.cache[k] = val
	return val, nil
}

func lastSexp(s string) string {
	s = strings.TrimSpace(s)
	if s == "" {
		return s
	}
	if s[len(s)-1] != ')' {
		k := strings.LastIndexAny(s, " \n\t")
		return s[k+1:]
	}
	depth := 0
	for i := len(s) - 1; i >= 0; i-- {
		switch s[i] {
		case ')':
			depth++
		case '(':
			depth--
			if depth == 0 {
				return s[i:]
			}
		}
	}
	return s
}

func (ms *ModelSession) Int(t *Term) (*big.Int, error) {
	if c := t.IntConst(); c != nil {
		return c, nil
	}
	v, err := ms.Raw(t)
	if err != nil {
		return nil, err
	}
	return parseSMTInt(v)
}

func parseSMTInt(v string) (*big.Int, error) {
	v = strings.TrimSpace(v)
	neg := false
	if strings.HasPrefix(v, "(-") {
		neg = true
		v = strings.TrimSpace(strings.TrimSuffix(strings.TrimPrefix(v, "(-"), ")"))
	}
	n, ok := new(big.Int).SetString(v, 10)
	if !ok {
		return nil, fmt.Errorf("not an integer value: %q", v)
	}
	if neg {
		n.Neg(n)
	}
	return n, nil
}

func (ms *ModelSession) Bool(t *Term) (bool, error) {
	if t.IsTrue() {
		return true, nil
	}
	if t.IsFalse() {
		return false, nil
	}
	v, err := ms.Raw(t)
	if err != nil {
		return false, err
	}
	return strings.TrimSpace(v) == "true", nil
}
