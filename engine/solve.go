package main

// Solver portfolio: every obligation is written to a file and raced on z3 5.x (z3-new),
// z3 4.8.12 and cvc5; the first definite answer wins. Disagreement between definite
// answers is reported as an engine error.

import (
	"context"
	"fmt"
	"os"
	"os/exec"
	"path/filepath"
	"strings"
	"sync"
	"time"
)

type solverSpec struct {
	name string
	argv func(file string, timeoutS int) []string
}

var solvers = []solverSpec{
	{"z3-new", func(f string, t int) []string { return []string{"z3-new", fmt.Sprintf("-T:%d", t), f} }},
	{"z3", func(f string, t int) []string { return []string{"z3", fmt.Sprintf("-T:%d", t), f} }},
	{"cvc5", func(f string, t int) []string {
		return []string{"cvc5", "--lang=smt2", fmt.Sprintf("--tlimit=%d", t*1000), f}
	}},
}

type solveOpts struct {
	TimeoutS int
	Workers  int
	Dir      string // scratch dir for query files
	Keep     bool
	Only     string // restrict to one solver (debug)
	Models   bool
}

func runSolver(ctx context.Context, sp solverSpec, file string, timeoutS int) (verdict, out string, secs float64) {
	t0 := time.Now()
	argv := sp.argv(file, timeoutS)
	cctx, cancel := context.WithTimeout(ctx, time.Duration(timeoutS+2)*time.Second)
	defer cancel()
	cmd := exec.CommandContext(cctx, argv[0], argv[1:]...)
	b, _ := cmd.CombinedOutput()
	secs = time.Since(t0).Seconds()
	out = string(b)
	first := strings.TrimSpace(out)
	if k := strings.IndexByte(first, '\n'); k >= 0 {
		first = strings.TrimSpace(first[:k])
	}
	switch first {
	case "unsat", "sat", "unknown":
		return first, out, secs
	case "timeout":
		return "timeout", out, secs
	}
	if cctx.Err() != nil {
		return "timeout", out, secs
	}
	if strings.Contains(out, "timeout") || strings.Contains(out, "interrupted") {
		return "timeout", out, secs
	}
	return "error", out, secs
}

// solveOne races the solvers on one obligation.
func solveOne(ob *Obligation, opt solveOpts) {
	if ob.ExpectSat && opt.TimeoutS > 4 {
		opt.TimeoutS = 4 // vacuity guard: only a quick `unsat` matters
	}
	script := ob.Script(opt.TimeoutS*1000, opt.Models)
	file := filepath.Join(opt.Dir, sanitize(ob.Name)+".smt2")
	if err := os.WriteFile(file, []byte(script), 0o644); err != nil {
		ob.Result, ob.Output = "error", err.Error()
		return
	}
	if !opt.Keep {
		defer os.Remove(file)
	}
	// quantifier-free and small? all the same path: race.
	ctx, cancel := context.WithCancel(context.Background())
	defer cancel()
	type ans struct {
		solver, verdict, out string
		secs                 float64
	}
	var use []solverSpec
	for _, sp := range solvers {
		if opt.Only == "" || opt.Only == sp.name {
			use = append(use, sp)
		}
	}
	ch := make(chan ans, len(use))
	for _, sp := range use {
		sp := sp
		go func() {
			v, o, s := runSolver(ctx, sp, file, opt.TimeoutS)
			ch <- ans{sp.name, v, o, s}
		}()
	}
	var best *ans
	var all []string
	t0 := time.Now()
	for i := 0; i < len(use); i++ {
		a := <-ch
		all = append(all, fmt.Sprintf("[%s %.2fs] %s", a.solver, a.secs, firstLines(a.out, 3)))
		if a.verdict == "unsat" || a.verdict == "sat" {
			if best == nil {
				aa := a
				best = &aa
				cancel()
				// keep draining quickly: other solvers were cancelled
			} else if best.verdict != a.verdict && (a.verdict == "sat" || a.verdict == "unsat") {
				ob.Result = "error"
				ob.Output = "solver disagreement: " + strings.Join(all, " | ")
				return
			}
		} else if best == nil && (a.verdict == "unknown" || a.verdict == "timeout") {
			// remember the weakest answer in case nobody is definite
			if ob.Result == "" || ob.Result == "error" || (ob.Result == "timeout" && a.verdict == "unknown") {
				ob.Result = a.verdict
				ob.Solver = a.solver
				ob.Output = a.out
			}
		} else if best == nil && ob.Result == "" {
			ob.Result = "error"
			ob.Solver = a.solver
			ob.Output = a.out
		}
	}
	ob.Seconds = time.Since(t0).Seconds()
	if best != nil {
		ob.Result, ob.Solver, ob.Output = best.verdict, best.solver, best.out
		ob.Seconds = best.secs
		if best.verdict == "sat" {
			ob.Model = best.out
		}
	} else {
		ob.Output = strings.Join(all, "\n")
	}
}

func firstLines(s string, n int) string {
	ls := strings.Split(strings.TrimSpace(s), "\n")
	if len(ls) > n {
		ls = ls[:n]
	}
	return strings.Join(ls, " / ")
}

// solveAll discharges obligations in parallel.
func solveAll(obs []*Obligation, opt solveOpts) {
	if opt.Workers <= 0 {
		opt.Workers = 8
	}
	var wg sync.WaitGroup
	ch := make(chan *Obligation)
	for w := 0; w < opt.Workers; w++ {
		wg.Add(1)
		go func() {
			defer wg.Done()
			for ob := range ch {
				solveOne(ob, opt)
			}
		}()
	}
	for _, ob := range obs {
		ch <- ob
	}
	close(ch)
	wg.Wait()
}

// Discharged reports whether the obligation got its expected answer.
func (ob *Obligation) Discharged() bool {
	if ob.ExpectSat {
		return ob.Result != "unsat" && ob.Result != "error" // cover: only unsat is a failure
	}
	return ob.Result == "unsat"
}
