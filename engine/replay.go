package main

// Replay: turn a solver model into a Go test that rebuilds the inputs, runs the REAL
// function, and evaluates the contract's clauses at run time (DESIGN A.7). The test is
// injected with `go test -overlay`, nothing is written into /repo.

import (
	"encoding/json"
	"fmt"
	"go/types"
	"math/big"
	"os"
	"os/exec"
	"path/filepath"
	"sort"
	"strconv"
	"strings"
	"time"

	"golang.org/x/tools/go/ssa"
)

var replayStart = time.Now()

const replayBudget = 150 * time.Second

type ReplayInfo struct {
	Fn       *ssa.Function
	Params   []Val
	M0       *Term
	Contract *FuncContract
}

type matObj struct {
	id     string
	name   string
	kind   string // "slice" or "ptr"
	elem   types.Type
	extent int
}

type mat struct {
	ms      *ModelSession
	m0      *Term
	pkg     *types.Package
	objs    map[string]*matObj
	order   []*matObj
	imports map[string]string
	busy    map[string]bool
}

type unreplayable string

func (m *mat) fail(f string, a ...interface{}) { panic(unreplayable(fmt.Sprintf(f, a...))) }

func (m *mat) qual(p *types.Package) string {
	if p == m.pkg {
		return ""
	}
	m.imports[p.Path()] = p.Name()
	return p.Name()
}

func (m *mat) typeStr(T types.Type) string { return types.TypeString(T, m.qual) }

func (m *mat) cells(obj, off *big.Int, n int) []*big.Int {
	v, _ := m.cellsT(obj, off, n)
	return v
}

// needConstraint: the model is not replayable as it stands, but would be with this extra
// constraint (e.g. a pointer stored in memory must point at the start of its object).
type needConstraint struct{ t *Term }

func (m *mat) cellsT(obj, off *big.Int, n int) ([]*big.Int, []*Term) {
	return m.cellsSym(IntB(obj), IntB(off), n)
}

// cellsSym reads cells through symbolic address terms, so that constraints derived from
// what is found there apply to every model, not just to this model's object ids.
func (m *mat) cellsSym(obj, off *Term, n int) ([]*big.Int, []*Term) {
	arr := Select(m.m0, obj)
	ts := make([]*Term, n)
	for i := 0; i < n; i++ {
		ts[i] = Select(arr, Add(off, Int(int64(i))))
	}
	return m.cellsOf(ts), ts
}

func (m *mat) cellsOf(ts []*Term) []*big.Int {
	n := len(ts)
	out := make([]*big.Int, n)
	// batch to keep the dialogue short
	for i := 0; i < n; i += 512 {
		j := i + 512
		if j > n {
			j = n
		}
		vals, err := m.ms.Ints(ts[i:j])
		if err != nil {
			m.fail("model query failed: %v", err)
		}
		copy(out[i:j], vals)
	}
	return out
}

// Ints evaluates several integer terms in one get-value.
func (ms *ModelSession) Ints(ts []*Term) ([]*big.Int, error) {
	out := make([]*big.Int, len(ts))
	var ask []*Term
	var idx []int
	for i, t := range ts {
		if c := t.IntConst(); c != nil {
			out[i] = c
		} else if v, ok := ms.cache[t.String()]; ok {
			n, err := parseSMTInt(v)
			if err != nil {
				return nil, err
			}
			out[i] = n
		} else {
			ask = append(ask, t)
			idx = append(idx, i)
		}
	}
	if len(ask) == 0 {
		return out, nil
	}
	var sb strings.Builder
	sb.WriteString("(get-value (")
	for _, t := range ask {
		sb.WriteString(t.String())
		sb.WriteByte(' ')
	}
	sb.WriteString("))\n")
	fmt.Fprint(ms.in, sb.String())
	resp, err := ms.readSexpOrWord()
	if err != nil {
		return nil, err
	}
	if strings.HasPrefix(strings.TrimSpace(resp), "(error") {
		return nil, fmt.Errorf("solver: %s", resp)
	}
	pairs := splitTopSexps(strings.TrimSpace(resp))
	if len(pairs) != len(ask) {
		return nil, fmt.Errorf("get-value returned %d pairs for %d terms", len(pairs), len(ask))
	}
	for k, p := range pairs {
		v := lastSexp(strings.TrimSuffix(strings.TrimPrefix(p, "("), ")"))
		n, err := parseSMTInt(v)
		if err != nil {
			return nil, err
		}
		ms.cache[ask[k].String()] = v
		out[idx[k]] = n
	}
	return out, nil
}

// splitTopSexps splits "((a 1) (b 2))" into ["(a 1)", "(b 2)"].
func splitTopSexps(s string) []string {
	s = strings.TrimSpace(s)
	s = strings.TrimSuffix(strings.TrimPrefix(s, "("), ")")
	var out []string
	depth, start := 0, -1
	for i := 0; i < len(s); i++ {
		switch s[i] {
		case '(':
			if depth == 0 {
				start = i
			}
			depth++
		case ')':
			depth--
			if depth == 0 && start >= 0 {
				out = append(out, s[start:i+1])
				start = -1
			}
		}
	}
	return out
}

const maxReplayElems = 1 << 16

func (m *mat) discover(T types.Type, lv []*big.Int, src []*Term) {
	switch t := T.Underlying().(type) {
	case *types.Pointer:
		obj, off := lv[0], lv[1]
		if obj.Sign() == 0 {
			return
		}
		if off.Sign() != 0 {
			if src != nil && src[1].IntConst() == nil {
				panic(needConstraint{Eq(src[1], Int(0))})
			}
			m.fail("interior pointer in model (object %s offset %s)", obj, off)
		}
		id := obj.String()
		if o := m.objs[id]; o != nil {
			if o.kind != "ptr" || !types.Identical(o.elem, t.Elem()) {
				if src != nil && src[0].IntConst() == nil {
					// ask for a different object: ids of differently typed objects must differ
					panic(needConstraint{Ne(src[0], IntB(obj))})
				}
				m.fail("object %s viewed with two different types", id)
			}
			return
		}
		o := &matObj{id: id, name: "o" + strings.ReplaceAll(id, "-", "m"), kind: "ptr", elem: t.Elem()}
		m.objs[id] = o
		m.order = append(m.order, o)
		n := sizeOf(t.Elem())
		if n > 20000 {
			m.fail("pointee too large")
		}
		var cv []*big.Int
		var ct []*Term
		if src != nil {
			cv, ct = m.cellsSym(src[0], Int(0), n)
		} else {
			cv, ct = m.cellsT(obj, big.NewInt(0), n)
		}
		m.discover(t.Elem(), cv, ct)
	case *types.Slice:
		obj, off, ln, cp := lv[0], lv[1], lv[2], lv[3]
		if obj.Sign() == 0 {
			return
		}
		es := int64(sizeOf(t.Elem()))
		if es == 0 {
			return
		}
		if ln.Sign() < 0 || cp.Cmp(ln) < 0 || off.Sign() < 0 {
			if src != nil && src[2].IntConst() == nil {
				panic(needConstraint{And(Le(Int(0), src[1]), Le(Int(0), src[2]), Le(src[2], src[3]))})
			}
			m.fail("ill-formed slice header in model")
		}
		if new(big.Int).Mod(off, big.NewInt(es)).Sign() != 0 || (off.IsInt64() && off.Int64()/es > 4096) {
			if src != nil && src[1].IntConst() == nil {
				panic(needConstraint{Eq(src[1], Int(0))})
			}
			m.fail("misaligned slice in model")
		}
		if !cp.IsInt64() || cp.Int64() > maxReplayElems || !off.IsInt64() || off.Int64()/es > maxReplayElems {
			if src != nil && src[3].IntConst() == nil {
				panic(needConstraint{And(Le(src[3], Int(4096)), Le(src[2], Int(1024)))})
			}
			m.fail("slice too large to replay (cap %s)", cp)
		}
		start := int(off.Int64() / es)
		ext := start + int(cp.Int64())
		id := obj.String()
		o := m.objs[id]
		if o == nil {
			o = &matObj{id: id, name: "o" + strings.ReplaceAll(id, "-", "m"), kind: "slice", elem: t.Elem()}
			m.objs[id] = o
			m.order = append(m.order, o)
		} else if o.kind != "slice" || !types.Identical(o.elem, t.Elem()) {
			if src != nil && src[0].IntConst() == nil {
				panic(needConstraint{Ne(src[0], IntB(obj))})
			}
			m.fail("object %s viewed with two different types", id)
		}
		if ext > o.extent {
			o.extent = ext
		}
		if hasRefs(t.Elem()) {
			key := fmt.Sprintf("%s:%d:%s", id, start, ln)
			if m.busy[key] {
				return
			}
			m.busy[key] = true
			n := int(ln.Int64())
			if n > 6 && src != nil && src[2].IntConst() == nil {
				panic(needConstraint{Le(src[2], Int(6))})
			}
			var cs []*big.Int
			var ct []*Term
			if src != nil {
				cs, ct = m.cellsSym(src[0], src[1], n*int(es))
			} else {
				cs, ct = m.cellsT(obj, off, n*int(es))
			}
			if _, isPtr := t.Elem().Underlying().(*types.Pointer); isPtr {
				// all element pointers canonical at once
				var need []*Term
				for i := 0; i < n; i++ {
					if cs[i*int(es)].Sign() != 0 && cs[i*int(es)+1].Sign() != 0 {
						need = append(need, Eq(ct[i*int(es)+1], Int(0)))
					}
				}
				if len(need) > 0 {
					panic(needConstraint{And(need...)})
				}
			}
			for i := 0; i < n; i++ {
				m.discover(t.Elem(), cs[i*int(es):(i+1)*int(es)], ct[i*int(es):(i+1)*int(es)])
			}
		}
	case *types.Struct:
		off := 0
		for i := 0; i < t.NumFields(); i++ {
			n := sizeOf(t.Field(i).Type())
			var sub []*Term
			if src != nil {
				sub = src[off : off+n]
			}
			m.discover(t.Field(i).Type(), lv[off:off+n], sub)
			off += n
		}
	case *types.Array:
		if !hasRefs(t.Elem()) {
			return
		}
		es := sizeOf(t.Elem())
		for i := 0; i < int(t.Len()); i++ {
			var sub []*Term
			if src != nil {
				sub = src[i*es : (i+1)*es]
			}
			m.discover(t.Elem(), lv[i*es:(i+1)*es], sub)
		}
	}
}

func hasRefs(T types.Type) bool {
	for _, lf := range layoutOf(T).Leaves {
		if lf.K == LObj && !lf.Str {
			return true
		}
	}
	return false
}

func allZero(lv []*big.Int) bool {
	for _, v := range lv {
		if v.Sign() != 0 {
			return false
		}
	}
	return true
}

func (m *mat) emit(T types.Type, lv []*big.Int) string {
	switch t := T.Underlying().(type) {
	case *types.Basic:
		switch {
		case t.Info()&types.IsBoolean != 0:
			if lv[0].Cmp(big.NewInt(1)) == 0 {
				return m.typeStr(T) + "(true)"
			}
			return m.typeStr(T) + "(false)"
		case t.Info()&types.IsInteger != 0:
			return fmt.Sprintf("%s(%s)", m.typeStr(T), lv[0])
		case t.Info()&types.IsString != 0:
			n := lv[2]
			if !n.IsInt64() || n.Int64() > maxReplayElems {
				m.fail("string too long to replay")
			}
			arr := Select(strMemSym, IntB(lv[0]))
			bs := make([]byte, n.Int64())
			var ts []*Term
			for i := range bs {
				ts = append(ts, Select(arr, IntB(new(big.Int).Add(lv[1], big.NewInt(int64(i))))))
			}
			vals, err := m.ms.Ints(ts)
			if err != nil {
				m.fail("model query failed: %v", err)
			}
			for i, v := range vals {
				bs[i] = byte(v.Int64())
			}
			return fmt.Sprintf("%s(%s)", m.typeStr(T), quoteBytes(bs))
		case t.Kind() == types.UnsafePointer:
			return "nil"
		default:
			return fmt.Sprintf("%s(0)", m.typeStr(T))
		}
	case *types.Pointer:
		if lv[0].Sign() == 0 {
			return fmt.Sprintf("(%s)(nil)", m.typeStr(T))
		}
		o := m.objs[lv[0].String()]
		if o == nil {
			m.fail("pointer to undiscovered object")
		}
		return o.name
	case *types.Slice:
		if lv[0].Sign() == 0 {
			return fmt.Sprintf("%s(nil)", m.typeStr(T))
		}
		o := m.objs[lv[0].String()]
		if o == nil {
			m.fail("slice of undiscovered object")
		}
		es := int64(sizeOf(t.Elem()))
		start := lv[1].Int64() / es
		return fmt.Sprintf("%s(%s[%d:%d:%d])", m.typeStr(T), o.name, start, start+lv[2].Int64(), start+lv[3].Int64())
	case *types.Struct:
		var fs []string
		off := 0
		for i := 0; i < t.NumFields(); i++ {
			f := t.Field(i)
			n := sizeOf(f.Type())
			sub := lv[off : off+n]
			off += n
			if allZero(sub) {
				continue
			}
			switch f.Type().Underlying().(type) {
			case *types.Interface, *types.Map, *types.Chan, *types.Signature:
				continue
			}
			if named, ok := f.Type().(*types.Named); ok && named.Obj().Pkg() != nil && named.Obj().Pkg().Path() == "sync" {
				continue
			}
			fs = append(fs, fmt.Sprintf("%s: %s", f.Name(), m.emit(f.Type(), sub)))
		}
		return fmt.Sprintf("%s{%s}", m.typeStr(T), strings.Join(fs, ", "))
	case *types.Array:
		es := sizeOf(t.Elem())
		if allZero(lv) {
			return fmt.Sprintf("%s{}", m.typeStr(T))
		}
		var el []string
		for i := 0; i < int(t.Len()); i++ {
			sub := lv[i*es : (i+1)*es]
			if allZero(sub) {
				continue
			}
			el = append(el, fmt.Sprintf("%d: %s", i, m.emit(t.Elem(), sub)))
		}
		return fmt.Sprintf("%s{%s}", m.typeStr(T), strings.Join(el, ", "))
	}
	// interface, map, chan, func: zero value
	return fmt.Sprintf("*new(%s)", m.typeStr(T))
}

func quoteBytes(bs []byte) string {
	var sb strings.Builder
	sb.WriteByte('"')
	for _, b := range bs {
		fmt.Fprintf(&sb, "\\x%02x", b)
	}
	sb.WriteByte('"')
	return sb.String()
}

// buildInputs produces Go statements declaring a0..an from the model.
func (m *mat) buildInputs(ri *ReplayInfo) (decls []string, args []string) {
	var plv [][]*big.Int
	for _, p := range ri.Params {
		lv := make([]*big.Int, len(p.L))
		for i, t := range p.L {
			if t.Sort == SBool {
				b, err := m.ms.Bool(t)
				if err != nil {
					m.fail("model query failed: %v", err)
				}
				if b {
					lv[i] = big.NewInt(1)
				} else {
					lv[i] = big.NewInt(0)
				}
				continue
			}
			v, err := m.ms.Int(t)
			if err != nil {
				m.fail("model query failed: %v", err)
			}
			lv[i] = v
		}
		plv = append(plv, lv)
		m.discover(p.T, lv, p.L)
	}
	// discovery may grow m.order while iterating contents
	for _, o := range m.order {
		switch o.kind {
		case "slice":
			decls = append(decls, fmt.Sprintf("%s := make([]%s, %d)", o.name, m.typeStr(o.elem), o.extent))
		case "ptr":
			decls = append(decls, fmt.Sprintf("%s := new(%s)", o.name, m.typeStr(o.elem)))
		}
	}
	for _, o := range m.order {
		obj, _ := new(big.Int).SetString(o.id, 10)
		switch o.kind {
		case "slice":
			es := sizeOf(o.elem)
			cs := m.cells(obj, big.NewInt(0), o.extent*es)
			if b := basicOf(o.elem); b != nil && b.Kind() == types.Uint8 && es == 1 {
				bs := make([]byte, o.extent)
				for i := range bs {
					bs[i] = byte(cs[i].Int64())
				}
				decls = append(decls, fmt.Sprintf("copy(%s, %s)", o.name, quoteBytes(bs)))
				continue
			}
			for i := 0; i < o.extent; i++ {
				sub := cs[i*es : (i+1)*es]
				if allZero(sub) {
					continue
				}
				decls = append(decls, fmt.Sprintf("%s[%d] = %s", o.name, i, m.emit(o.elem, sub)))
			}
		case "ptr":
			n := sizeOf(o.elem)
			cs := m.cells(obj, big.NewInt(0), n)
			if !allZero(cs) {
				decls = append(decls, fmt.Sprintf("*%s = %s", o.name, m.emit(o.elem, cs)))
			}
		}
		decls = append(decls, "_ = "+o.name)
	}
	for i, p := range ri.Params {
		name := fmt.Sprintf("a%d", i)
		decls = append(decls, fmt.Sprintf("%s := %s", name, m.emit(p.T, plv[i])))
		decls = append(decls, "_ = "+name)
		args = append(args, name)
	}
	return
}

// ---------- run-time assertion code for contract clauses ----------

type racVal struct {
	code string
	kind string // "int" (*big.Int), "bool", "go", "nil"
	T    types.Type
}

type rac struct {
	m     *mat
	eng   *Eng
	env   map[string]racVal
	pre   []string // statements to run before the call (old snapshots)
	nOld  int
	inOld bool
	fn    *ssa.Function
}

type racUnsupported string

func (r *rac) bad(f string, a ...interface{}) { panic(racUnsupported(fmt.Sprintf(f, a...))) }

func (r *rac) asInt(v racVal) string {
	switch v.kind {
	case "int":
		return v.code
	case "go":
		if v.T != nil && isInteger(v.T) {
			return "gI(" + v.code + ")"
		}
	}
	r.bad("integer expected, got %s", v.kind)
	return ""
}

func (r *rac) asBool(v racVal) string {
	if v.kind == "bool" {
		return v.code
	}
	if v.kind == "go" && v.T != nil && isBoolean(v.T) {
		return "bool(" + v.code + ")"
	}
	r.bad("boolean expected")
	return ""
}

func (r *rac) gen(e *Expr) racVal {
	switch e.Op {
	case "num":
		return racVal{code: fmt.Sprintf("gN(%q)", e.Num.String()), kind: "int"}
	case "id":
		switch e.Name {
		case "true", "false":
			return racVal{code: e.Name, kind: "bool"}
		case "nil":
			return racVal{kind: "nil"}
		}
		if v, ok := r.env[e.Name]; ok {
			return v
		}
		if k, ok := r.eng.constant(r.fn, e.Name); ok {
			return racVal{code: fmt.Sprintf("gN(%q)", k.String()), kind: "int"}
		}
		r.bad("unknown name %s", e.Name)
	case "old":
		was := r.inOld
		r.inOld = true
		v := r.gen(e.Args[0])
		r.inOld = was
		if was {
			return v
		}
		r.nOld++
		name := fmt.Sprintf("old%d", r.nOld)
		switch v.kind {
		case "int":
			r.pre = append(r.pre, fmt.Sprintf("%s := new(big.Int).Set(%s)", name, v.code))
			return racVal{code: name, kind: "int"}
		case "bool":
			r.pre = append(r.pre, fmt.Sprintf("%s := %s", name, v.code))
			return racVal{code: name, kind: "bool"}
		case "go":
			if v.T != nil && (isInteger(v.T) || isBoolean(v.T)) {
				r.pre = append(r.pre, fmt.Sprintf("%s := %s", name, v.code))
				return racVal{code: name, kind: "go", T: v.T}
			}
		}
		r.bad("old() of a reference value cannot be snapshotted")
	case "field":
		x := r.gen(e.Args[0])
		if x.kind != "go" {
			r.bad("field of non-value")
		}
		obj, _, _ := types.LookupFieldOrMethod(x.T, true, r.m.pkg, e.Name)
		if obj == nil {
			if n := namedOf(x.T); n != nil && n.Obj().Pkg() != nil {
				obj, _, _ = types.LookupFieldOrMethod(x.T, true, n.Obj().Pkg(), e.Name)
			}
		}
		fv, ok := obj.(*types.Var)
		if !ok {
			r.bad("no field %s", e.Name)
		}
		if !fv.Exported() && fv.Pkg() != r.m.pkg {
			r.bad("unexported field %s of another package", e.Name)
		}
		return racVal{code: fmt.Sprintf("(%s).%s", x.code, e.Name), kind: "go", T: fv.Type()}
	case "index":
		x := r.gen(e.Args[0])
		i := r.asInt(r.gen(e.Args[1]))
		if x.kind != "go" {
			r.bad("index of non-value")
		}
		var et types.Type
		switch t := x.T.Underlying().(type) {
		case *types.Slice:
			et = t.Elem()
		case *types.Array:
			et = t.Elem()
		case *types.Pointer:
			a, ok := t.Elem().Underlying().(*types.Array)
			if !ok {
				r.bad("index of pointer")
			}
			et = a.Elem()
		case *types.Basic:
			et = types.Typ[types.Uint8]
		default:
			r.bad("index of %s", x.T)
		}
		return racVal{code: fmt.Sprintf("(%s)[gIdx(%s)]", x.code, i), kind: "go", T: et}
	case "slice":
		x := r.gen(e.Args[0])
		if x.kind != "go" {
			r.bad("slice of non-value")
		}
		lo, hi := "", ""
		if e.Args[1] != nil {
			lo = "gIdx(" + r.asInt(r.gen(e.Args[1])) + ")"
		}
		if e.Args[2] != nil {
			hi = "gIdx(" + r.asInt(r.gen(e.Args[2])) + ")"
		}
		T := x.T
		switch t := x.T.Underlying().(type) {
		case *types.Array:
			T = types.NewSlice(t.Elem())
		case *types.Pointer:
			if a, ok := t.Elem().Underlying().(*types.Array); ok {
				T = types.NewSlice(a.Elem())
			}
		}
		return racVal{code: fmt.Sprintf("(%s)[%s:%s]", x.code, lo, hi), kind: "go", T: T}
	case "call":
		return r.call(e)
	case "spec":
		sf := r.eng.specs[e.Name]
		if sf == nil {
			r.bad("uninterpreted @%s cannot be evaluated at run time", e.Name)
		}
		sub := &rac{m: r.m, eng: r.eng, env: map[string]racVal{}, fn: r.fn, inOld: r.inOld}
		for i, p := range sf.Params {
			sub.env[p] = r.gen(e.Args[i])
		}
		v := sub.gen(sf.Body)
		r.pre = append(r.pre, sub.pre...)
		return v
	case "un":
		x := r.gen(e.Args[0])
		switch e.Name {
		case "-":
			return racVal{code: "gNeg(" + r.asInt(x) + ")", kind: "int"}
		case "!":
			return racVal{code: "!(" + r.asBool(x) + ")", kind: "bool"}
		case "#":
			return racVal{code: r.asInt(x), kind: "int"}
		case "*":
			if x.kind == "go" {
				if p, ok := x.T.Underlying().(*types.Pointer); ok {
					return racVal{code: "(*" + x.code + ")", kind: "go", T: p.Elem()}
				}
			}
		}
		r.bad("unary %s", e.Name)
	case "bin":
		return r.bin(e)
	case "forall", "exists":
		if e.Args[0] == nil {
			r.bad("unbounded quantifier")
		}
		if len(e.Vars) != 1 {
			r.bad("multi-variable quantifier")
		}
		lo, hi := r.asInt(r.gen(e.Args[0])), r.asInt(r.gen(e.Args[1]))
		sub := &rac{m: r.m, eng: r.eng, env: map[string]racVal{}, fn: r.fn, inOld: r.inOld}
		for k, v := range r.env {
			sub.env[k] = v
		}
		v := "q_" + e.Vars[0]
		sub.env[e.Vars[0]] = racVal{code: v, kind: "int"}
		body := sub.asBool(sub.gen(e.Args[2]))
		if len(sub.pre) > 0 {
			r.bad("old() under a quantifier")
		}
		if e.Op == "forall" {
			return racVal{code: fmt.Sprintf("gForall(%s, %s, func(%s *big.Int) bool { return %s })", lo, hi, v, body), kind: "bool"}
		}
		return racVal{code: fmt.Sprintf("!gForall(%s, %s, func(%s *big.Int) bool { return !(%s) })", lo, hi, v, body), kind: "bool"}
	}
	r.bad("cannot evaluate %s at run time", e)
	return racVal{}
}

func (r *rac) call(e *Expr) racVal {
	if b, ok := convTypes[e.Name]; ok && len(e.Args) == 1 {
		bits, signed := intBits(b)
		return racVal{code: fmt.Sprintf("gWrap(%s, %d, %v)", r.asInt(r.gen(e.Args[0])), bits, signed), kind: "int"}
	}
	switch e.Name {
	case "len", "cap":
		x := r.gen(e.Args[0])
		if x.kind != "go" {
			r.bad("len of non-value")
		}
		return racVal{code: fmt.Sprintf("gI(%s(%s))", e.Name, x.code), kind: "int"}
	case "ite":
		c := r.asBool(r.gen(e.Args[0]))
		a, b := r.gen(e.Args[1]), r.gen(e.Args[2])
		if a.kind == "bool" || b.kind == "bool" {
			return racVal{code: fmt.Sprintf("gIteB(%s, func() bool { return %s }, func() bool { return %s })", c, r.asBool(a), r.asBool(b)), kind: "bool"}
		}
		return racVal{code: fmt.Sprintf("gIte(%s, func() *big.Int { return %s }, func() *big.Int { return %s })", c, r.asInt(a), r.asInt(b)), kind: "int"}
	case "min", "max":
		return racVal{code: fmt.Sprintf("g%s(%s, %s)", strings.Title(e.Name), r.asInt(r.gen(e.Args[0])), r.asInt(r.gen(e.Args[1]))), kind: "int"}
	case "abs":
		return racVal{code: fmt.Sprintf("new(big.Int).Abs(%s)", r.asInt(r.gen(e.Args[0]))), kind: "int"}
	case "fresh":
		return racVal{code: "true", kind: "bool"} // not observable at run time
	case "bool2int":
		return racVal{code: fmt.Sprintf("gB2I(%s)", r.asBool(r.gen(e.Args[0]))), kind: "int"}
	}
	r.bad("function %s cannot be evaluated at run time", e.Name)
	return racVal{}
}

func (r *rac) bin(e *Expr) racVal {
	op := e.Name
	switch op {
	case "&&", "||", "==>", "<==>":
		a := r.asBool(r.gen(e.Args[0]))
		b := r.asBool(r.gen(e.Args[1]))
		switch op {
		case "&&":
			return racVal{code: fmt.Sprintf("(%s && %s)", a, b), kind: "bool"}
		case "||":
			return racVal{code: fmt.Sprintf("(%s || %s)", a, b), kind: "bool"}
		case "==>":
			return racVal{code: fmt.Sprintf("(!(%s) || %s)", a, b), kind: "bool"}
		default:
			return racVal{code: fmt.Sprintf("((%s) == (%s))", a, b), kind: "bool"}
		}
	case "==", "!=":
		a, b := r.gen(e.Args[0]), r.gen(e.Args[1])
		var code string
		switch {
		case a.kind == "nil" && b.kind == "nil":
			code = "true"
		case a.kind == "nil":
			code = fmt.Sprintf("(%s == nil)", b.code)
		case b.kind == "nil":
			code = fmt.Sprintf("(%s == nil)", a.code)
		case (a.kind == "bool" || (a.kind == "go" && isBoolean(a.T))) && (b.kind == "bool" || (b.kind == "go" && isBoolean(b.T))):
			code = fmt.Sprintf("(%s == %s)", r.asBool(a), r.asBool(b))
		case a.kind == "go" && b.kind == "go" && !isInteger(a.T):
			code = fmt.Sprintf("(%s == %s)", a.code, b.code)
		default:
			code = fmt.Sprintf("(%s.Cmp(%s) == 0)", r.asInt(a), r.asInt(b))
		}
		if op == "!=" {
			code = "!" + code
		}
		return racVal{code: code, kind: "bool"}
	}
	a := r.asInt(r.gen(e.Args[0]))
	b := r.asInt(r.gen(e.Args[1]))
	switch op {
	case "<", "<=", ">", ">=":
		return racVal{code: fmt.Sprintf("(%s.Cmp(%s) %s 0)", a, b, op), kind: "bool"}
	case "+":
		return racVal{code: fmt.Sprintf("new(big.Int).Add(%s, %s)", a, b), kind: "int"}
	case "-":
		return racVal{code: fmt.Sprintf("new(big.Int).Sub(%s, %s)", a, b), kind: "int"}
	case "*":
		return racVal{code: fmt.Sprintf("new(big.Int).Mul(%s, %s)", a, b), kind: "int"}
	case "/":
		return racVal{code: fmt.Sprintf("gDiv(%s, %s)", a, b), kind: "int"}
	case "%":
		return racVal{code: fmt.Sprintf("gMod(%s, %s)", a, b), kind: "int"}
	case "**":
		return racVal{code: fmt.Sprintf("new(big.Int).Exp(%s, %s, nil)", a, b), kind: "int"}
	case "<<":
		return racVal{code: fmt.Sprintf("new(big.Int).Lsh(%s, uint(gIdx(%s)))", a, b), kind: "int"}
	case ">>":
		return racVal{code: fmt.Sprintf("gDiv(%s, new(big.Int).Lsh(big.NewInt(1), uint(gIdx(%s))))", a, b), kind: "int"}
	case "&":
		return racVal{code: fmt.Sprintf("gMod(%s, new(big.Int).Add(%s, big.NewInt(1)))", a, b), kind: "int"}
	}
	r.bad("operator %s", op)
	return racVal{}
}

const racPrelude = `
func gN(s string) *big.Int { n, _ := new(big.Int).SetString(s, 10); return n }
func gI(x interface{}) *big.Int {
	v := reflect.ValueOf(x)
	switch v.Kind() {
	case reflect.Int, reflect.Int8, reflect.Int16, reflect.Int32, reflect.Int64:
		return big.NewInt(v.Int())
	case reflect.Uint, reflect.Uint8, reflect.Uint16, reflect.Uint32, reflect.Uint64, reflect.Uintptr:
		return new(big.Int).SetUint64(v.Uint())
	}
	panic("gI: not an integer")
}
func gIdx(x *big.Int) int {
	if !x.IsInt64() { panic("gIdx: out of range") }
	return int(x.Int64())
}
func gNeg(x *big.Int) *big.Int { return new(big.Int).Neg(x) }
func gDiv(a, b *big.Int) *big.Int { q, m := new(big.Int), new(big.Int); q.DivMod(a, b, m); return q }
func gMod(a, b *big.Int) *big.Int { q, m := new(big.Int), new(big.Int); q.DivMod(a, b, m); return m }
func gWrap(x *big.Int, bits int, signed bool) *big.Int {
	m := new(big.Int).Lsh(big.NewInt(1), uint(bits))
	r := gMod(x, m)
	if signed && r.Bit(bits-1) == 1 { r.Sub(r, m) }
	return r
}
func gIte(c bool, a, b func() *big.Int) *big.Int { if c { return a() }; return b() }
func gIteB(c bool, a, b func() bool) bool { if c { return a() }; return b() }
func gMin(a, b *big.Int) *big.Int { if a.Cmp(b) < 0 { return a }; return b }
func gMax(a, b *big.Int) *big.Int { if a.Cmp(b) > 0 { return a }; return b }
func gB2I(b bool) *big.Int { if b { return big.NewInt(1) }; return big.NewInt(0) }
func gForall(lo, hi *big.Int, f func(*big.Int) bool) bool {
	if new(big.Int).Sub(hi, lo).Cmp(big.NewInt(1<<22)) > 0 { panic("gForall: range too large") }
	for i := new(big.Int).Set(lo); i.Cmp(hi) < 0; i.Add(i, big.NewInt(1)) {
		if !f(new(big.Int).Set(i)) { return false }
	}
	return true
}
func gClause(f func() bool) (res string) {
	defer func() { if r := recover(); r != nil { res = fmt.Sprint("undefined: ", r) } }()
	if f() { return "true" }
	return "false"
}
`

// genReplayTest writes the test source for one function and model.
func genReplayTest(eng *Eng, ri *ReplayInfo, ms *ModelSession) (src string, err error) {
	defer func() {
		if r := recover(); r != nil {
			switch x := r.(type) {
			case unreplayable:
				err = fmt.Errorf("unreplayable: %s", string(x))
			case needConstraint:
				err = constraintErr{x.t}
			default:
				panic(r)
			}
		}
	}()
	fn := ri.Fn
	m := &mat{ms: ms, m0: ri.M0, pkg: fn.Pkg.Pkg, objs: map[string]*matObj{}, imports: map[string]string{}, busy: map[string]bool{}}
	decls, args := m.buildInputs(ri)
	sig := fn.Signature
	var resNames []string
	for i := 0; i < sig.Results().Len(); i++ {
		resNames = append(resNames, fmt.Sprintf("r%d", i))
	}
	// call expression
	var call string
	if sig.Recv() != nil {
		call = fmt.Sprintf("%s.%s(%s)", args[0], fn.Name(), strings.Join(args[1:], ", "))
	} else {
		call = fmt.Sprintf("%s(%s)", fn.Name(), strings.Join(args, ", "))
	}
	// clauses
	env := map[string]racVal{}
	for i, p := range fn.Params {
		v := racVal{code: args[i], kind: "go", T: p.Type()}
		env[p.Name()] = v
		env[p.Name()+"0"] = v
	}
	for i := 0; i < sig.Results().Len(); i++ {
		v := racVal{code: resNames[i], kind: "go", T: sig.Results().At(i).Type()}
		if n := sig.Results().At(i).Name(); n != "" && n != "_" {
			env[n] = v
		}
		env[fmt.Sprintf("result%d", i)] = v
		if i == 0 {
			env["result"] = v
		}
	}
	type cl struct{ label, code, err string }
	var cls []cl
	var pre []string
	// the preconditions are evaluated on the materialised input: an input that does not
	// satisfy them is not a counterexample, whatever the real code does with it
	var reqs []cl
	for i, c := range ri.Contract.Requires {
		label := labelOr(c.Label, i+1)
		func() {
			defer func() {
				if r := recover(); r != nil {
					if u, ok := r.(racUnsupported); ok {
						reqs = append(reqs, cl{label: label, err: string(u)})
						return
					}
					panic(r)
				}
			}()
			rc := &rac{m: m, eng: eng, env: env, fn: fn}
			code := rc.asBool(rc.gen(c.E))
			if len(rc.pre) > 0 {
				reqs = append(reqs, cl{label: label, err: "needs old-state snapshots"})
				return
			}
			reqs = append(reqs, cl{label: label, code: code})
		}()
	}
	for i, c := range ri.Contract.Ensures {
		label := labelOr(c.Label, i+1)
		func() {
			defer func() {
				if r := recover(); r != nil {
					if u, ok := r.(racUnsupported); ok {
						cls = append(cls, cl{label: label, err: string(u)})
						return
					}
					panic(r)
				}
			}()
			rc := &rac{m: m, eng: eng, env: env, fn: fn}
			code := rc.asBool(rc.gen(c.E))
			pre = append(pre, rc.pre...)
			cls = append(cls, cl{label: label, code: code})
		}()
	}
	// render the result types first: typeStr registers the packages they need as imports
	var resTypes []string
	for i := 0; i < sig.Results().Len(); i++ {
		resTypes = append(resTypes, m.typeStr(sig.Results().At(i).Type()))
	}
	var sb strings.Builder
	fmt.Fprintf(&sb, "package %s\n\nimport (\n\t\"encoding/json\"\n\t\"fmt\"\n\t\"math/big\"\n\t\"reflect\"\n\t\"testing\"\n", fn.Pkg.Pkg.Name())
	var imps []string
	for p := range m.imports {
		imps = append(imps, p)
	}
	sort.Strings(imps)
	for _, p := range imps {
		switch p {
		case "encoding/json", "fmt", "math/big", "reflect", "testing":
			continue
		}
		fmt.Fprintf(&sb, "\t%q\n", p)
	}
	sb.WriteString(")\n\nvar _ = reflect.ValueOf\nvar _ = big.NewInt\n")
	sb.WriteString(racPrelude)
	sb.WriteString("\nfunc TestGocvReplay(t *testing.T) {\n")
	for _, d := range decls {
		sb.WriteString("\t" + d + "\n")
	}
	for i := 0; i < sig.Results().Len(); i++ {
		fmt.Fprintf(&sb, "\tvar %s %s\n\t_ = %s\n", resNames[i], resTypes[i], resNames[i])
	}
	for _, p := range pre {
		sb.WriteString("\t" + p + "\n")
	}
	sb.WriteString("\trequires := map[string]string{}\n")
	for _, c := range reqs {
		if c.err != "" {
			fmt.Fprintf(&sb, "\trequires[%q] = %q\n", c.label, "unsupported: "+c.err)
		} else {
			fmt.Fprintf(&sb, "\trequires[%q] = gClause(func() bool { return %s })\n", c.label, c.code)
		}
	}
	sb.WriteString("\tvar panicked interface{}\n\tfunc() {\n\t\tdefer func() { panicked = recover() }()\n\t\t")
	if len(resNames) > 0 {
		sb.WriteString(strings.Join(resNames, ", ") + " = ")
	}
	sb.WriteString(call + "\n\t}()\n")
	sb.WriteString("\tout := map[string]interface{}{\"panicked\": panicked != nil, \"panic\": fmt.Sprint(panicked)}\n\tclauses := map[string]string{}\n")
	sb.WriteString("\tif panicked == nil {\n")
	for _, c := range cls {
		if c.err != "" {
			fmt.Fprintf(&sb, "\t\tclauses[%q] = %q\n", c.label, "unsupported: "+c.err)
		} else {
			fmt.Fprintf(&sb, "\t\tclauses[%q] = gClause(func() bool { return %s })\n", c.label, c.code)
		}
	}
	sb.WriteString("\t}\n\tout[\"clauses\"] = clauses\n\tout[\"requires\"] = requires\n\tb, _ := json.Marshal(out)\n\tfmt.Printf(\"GOCV-REPLAY %s\\n\", b)\n}\n")
	return sb.String(), nil
}

type constraintErr struct{ t *Term }

func (c constraintErr) Error() string { return "model needs constraint " + c.t.String() }

// Constrain adds an assertion to the session and re-checks.
func (ms *ModelSession) Constrain(t *Term) (string, error) {
	ms.cache = map[string]string{}
	fmt.Fprintf(ms.in, "(assert %s)\n(check-sat)\n", t)
	line, err := ms.readSexpOrWord()
	return strings.TrimSpace(line), err
}

type replayOutcome struct {
	Panicked bool              `json:"panicked"`
	Panic    string            `json:"panic"`
	Clauses  map[string]string `json:"clauses"`
	Requires map[string]string `json:"requires"`
}

// runReplayTest injects the test into the package of fn through an overlay and runs it.
func runReplayTest(repo, pkgDir, src string) (*replayOutcome, string, error) {
	tmp, err := os.MkdirTemp("", "gocv-replay-*")
	if err != nil {
		return nil, "", err
	}
	defer os.RemoveAll(tmp)
	testFile := filepath.Join(tmp, "zz_gocv_replay_test.go")
	if err := os.WriteFile(testFile, []byte(src), 0o644); err != nil {
		return nil, "", err
	}
	ov := map[string]map[string]string{"Replace": {filepath.Join(pkgDir, "zz_gocv_replay_test.go"): testFile}}
	ob, _ := json.Marshal(ov)
	ovFile := filepath.Join(tmp, "overlay.json")
	os.WriteFile(ovFile, ob, 0o644)
	cmd := exec.Command("bash", "-c", fmt.Sprintf("ulimit -v 8000000; cd %s && go test -v -overlay %s -vet=off -count=1 -timeout 60s -run '^TestGocvReplay$' .", strconv.Quote(pkgDir), strconv.Quote(ovFile)))
	cmd.Env = append(os.Environ(), "GOFLAGS=-mod=mod", "GOPROXY=off", "GOSUMDB=off", "GOTOOLCHAIN=local")
	outb, _ := cmd.CombinedOutput()
	out := string(outb)
	for _, line := range strings.Split(out, "\n") {
		if strings.HasPrefix(line, "GOCV-REPLAY ") {
			var ro replayOutcome
			if err := json.Unmarshal([]byte(strings.TrimPrefix(line, "GOCV-REPLAY ")), &ro); err != nil {
				return nil, out, err
			}
			return &ro, out, nil
		}
	}
	return nil, out, fmt.Errorf("replay test produced no verdict")
}

// tryReplay attempts to confirm a failed obligation on the real code: first with the
// solver's own model when there is one, then with a bounded, quantifier-free
// counterexample search over the same function (loops unrolled up to 3 times, callees
// inlined). Only inputs that make the REAL code fail count.
func tryReplay(cf *checkFlags, eng *Eng, ob *Obligation, rp map[string]interface{}) (bool, string) {
	ri := ob.vc.Replay
	if ri == nil || ri.Fn == nil || ob.ExpectSat {
		return false, "no replay for this obligation (lemma or cover query)"
	}
	if ri.Fn.Pkg == nil {
		return false, "no package"
	}
	var notes []string
	if ob.Result == "sat" {
		ok, d := replayFromOb(cf, eng, ob, rp)
		if ok {
			return true, d
		}
		notes = append(notes, "solver model: "+d)
	}
	tmp, err := os.MkdirTemp("", "gocv-refute-*")
	if err != nil {
		return false, err.Error()
	}
	defer os.RemoveAll(tmp)
	wantLabel := ob.Name[strings.Index(ob.Name, "#")+1:]
	for _, k := range []int{1, 2, 3} {
		if time.Since(replayStart) > replayBudget {
			notes = append(notes, "replay time budget exhausted")
			break
		}
		fr := eng.RefuteFunc(ri.Contract, k)
		if fr.Err != "" {
			notes = append(notes, "bounded search unavailable: "+fr.Err)
			break
		}
		var cands []*Obligation
		for _, c := range fr.VC.Obs {
			if strings.HasPrefix(c.Kind, "nopanic") || strings.HasPrefix(c.Kind, "post") || strings.HasPrefix(c.Kind, "panics") || strings.Contains(c.Kind, ".nopanic") {
				cands = append(cands, c)
			}
		}
		solveAll(cands, solveOpts{TimeoutS: 10, Workers: cf.workers, Dir: tmp, Only: "z3-new"})
		sort.SliceStable(cands, func(i, j int) bool {
			li := strings.HasSuffix(cands[i].Name, "#"+wantLabel)
			lj := strings.HasSuffix(cands[j].Name, "#"+wantLabel)
			return li && !lj
		})
		tried := 0
		timeouts := 0
		for _, c := range cands {
			if c.Result == "timeout" || c.Result == "unknown" {
				timeouts++
			}
		}
		if timeouts > 0 && k >= 1 {
			notes = append(notes, fmt.Sprintf("unroll %d: %d bounded queries undecided within 10 s", k, timeouts))
		}
		for _, c := range cands {
			if c.Result != "sat" || tried >= 4 {
				continue
			}
			tried++
			ok, d := replayFromOb(cf, eng, c, rp)
			if ok {
				rp["refutation_obligation"] = c.Name
				return true, fmt.Sprintf("bounded search (loops unrolled <= %d, callees inlined) found an input for %s; %s", k, c.Name, d)
			}
			notes = append(notes, fmt.Sprintf("unroll %d %s: %s", k, c.Name, d))
		}
		if timeouts > 0 {
			break // deeper unrolling only gets harder
		}
	}
	if len(notes) == 0 {
		notes = append(notes, "bounded search (unroll <= 3) found no failing input")
	}
	return false, strings.Join(notes, "; ")
}

func replayFromOb(cf *checkFlags, eng *Eng, ob *Obligation, rp map[string]interface{}) (bool, string) {
	ri := ob.vc.Replay
	script := ob.ScriptOpt(scriptOpt{NoCheck: true, BoundLens: ri.Params})
	ms, verdict, err := startModel(script, 20)
	if err != nil {
		return false, "model session failed: " + err.Error()
	}
	if verdict != "sat" {
		return false, "no model within replayable sizes: solver answered " + verdict
	}
	defer ms.Close()
	var src string
	for attempt := 0; ; attempt++ {
		src, err = genReplayTest(eng, ri, ms)
		if ce, ok := err.(constraintErr); ok && attempt < 40 {
			v, e2 := ms.Constrain(ce.t)
			if e2 != nil || v != "sat" {
				return false, "no model with canonical pointers: solver answered " + v
			}
			continue
		}
		break
	}
	if err != nil {
		return false, err.Error()
	}
	pkgDir := filepath.Join(cf.repo, strings.TrimPrefix(ri.Fn.Pkg.Pkg.Path(), modulePath+"/"))
	ro, out, err := runReplayTest(cf.repo, pkgDir, src)
	if err != nil {
		rp["replay_output"] = truncate(out, 4000)
		return false, "replay did not run: " + err.Error()
	}
	canPanic := ri.Contract.NoPanicCheck || ri.Contract.MayPanic || len(ri.Contract.PanicsIf) > 0
	confirmed, detail := false, ""
	var unmet []string
	for l, v := range ro.Requires {
		if v == "false" {
			unmet = append(unmet, l)
		}
	}
	sort.Strings(unmet)
	if len(unmet) > 0 {
		rp["last_unconfirmed_test"] = truncate(src, 6000)
		rp["last_unconfirmed_outcome"] = ro
		return false, "materialised input does not satisfy precondition(s) " + strings.Join(unmet, ", ") + " (not a counterexample)"
	}
	if ro.Panicked && !canPanic {
		confirmed, detail = true, "confirmed: the real function panics on this input: "+ro.Panic
	} else {
		var failed []string
		for l, v := range ro.Clauses {
			if v == "false" {
				failed = append(failed, l)
			}
		}
		sort.Strings(failed)
		if len(failed) > 0 {
			confirmed, detail = true, "confirmed: the real function violates clause(s) "+strings.Join(failed, ", ")+" on this input"
		}
	}
	if confirmed {
		rp["test_source"] = src
		rp["pkg_dir"] = pkgDir
		rp["replay_outcome"] = ro
		return true, detail
	}
	rp["last_unconfirmed_test"] = truncate(src, 6000)
	rp["last_unconfirmed_outcome"] = ro
	return false, "model input does not fail on the real code"
}
