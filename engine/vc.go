package main

// VC: an ordered list of declarations, definitions, assumptions and obligations generated
// from one function (or one lemma). The SMT script for obligation k consists of every
// declaration/definition/assumption emitted before it, plus the negated goal.

import (
	"fmt"
	"os"
	"strings"
)

type itemKind int

const (
	itDecl itemKind = iota
	itDef
	itAssume
	itOblig
	itDefRec
)

type Item struct {
	Kind  itemKind
	Name  string
	Sort  Sort
	ASort []Sort // argument sorts for uninterpreted functions
	Term  *Term  // definition body / assumption / goal
	Ob    *Obligation
	Params []*Term // itDefRec: formal parameters
}

type Obligation struct {
	Name     string // full name: pkg.Func#kind.ord
	Func     string
	Kind     string
	Goal     *Term
	Index    int    // position in VC items
	ExpectSat bool   // cover query: goal is asserted positively, sat expected
	Retried   bool   // ran out of time once and was solved again with a larger budget
	ExtraAssume *Term // case-split retry: one more assumption for this query only
	Pos      string // source position (informational)
	Note     string
	cached   string
	AbstractDiv bool
	AbstractNL bool // replace nonlinear products by uninterpreted symbols in this query (sound for unsat)
	Excuse   *Term  // known-finding excuse: obligation is proved under ¬excuse
	vc       *VC
	// results
	Result   string // unsat | sat | unknown | timeout | error
	Solver   string
	Seconds  float64
	Model    string
	Output   string
}

type VC struct {
	FuncName string
	Items    []Item
	Obs      []*Obligation
	nameCtr  map[string]int
	declared map[string]bool
	Prelude  []string // global prelude lines (uf declarations, axioms) as raw SMT
	Assumed  []string // human-readable list of assumptions used (for evidence)
	Abstracted []string
	kindCtr  map[string]int
	Replay   *ReplayInfo
	defs     map[string]*Term
	deferRender bool
	pendingNL bool
	pendingIdentity []*Term
	QF       bool // bounded search VC: quantifier-free, z3 only (native constant arrays)
}

type scriptOpt struct {
	Models    bool
	NoCheck   bool  // omit (check-sat): interactive session
	DropQuant bool  // drop quantified assumptions (model search only)
	BoundLens []Val // keep parameter slices small enough to replay
	noNL      bool
}

func hasQuant(t *Term) bool {
	if t.Op == "forall" || t.Op == "exists" {
		return true
	}
	for _, a := range t.Args {
		if hasQuant(a) {
			return true
		}
	}
	return false
}

func NewVC(fn string) *VC {
	vc := &VC{FuncName: fn, nameCtr: map[string]int{}, declared: map[string]bool{}, kindCtr: map[string]int{}, defs: map[string]*Term{}}
	curDefs = vc.defs
	dynBase = ""
	objBound = map[string]int{}
	allocEpoch = map[string]int{}
	memEpoch = map[string]int{}
	memAllocOf = map[string]*Term{}
	privObjKeys = map[string]bool{}
	curEpoch = 0
	return vc
}

func sanitize(s string) string {
	var sb strings.Builder
	for _, r := range s {
		switch {
		case r >= 'a' && r <= 'z', r >= 'A' && r <= 'Z', r >= '0' && r <= '9', r == '_':
			sb.WriteRune(r)
		default:
			sb.WriteByte('_')
		}
	}
	return sb.String()
}

func (vc *VC) freshName(base string) string {
	base = sanitize(base)
	n := vc.nameCtr[base]
	vc.nameCtr[base] = n + 1
	return fmt.Sprintf("%s!%d", base, n)
}

// Fresh declares a fresh constant.
func (vc *VC) Fresh(base string, s Sort) *Term {
	name := vc.freshName(base)
	vc.Items = append(vc.Items, Item{Kind: itDecl, Name: name, Sort: s})
	if s == SMem && memEpoch != nil {
		memEpoch[name] = curEpoch
	}
	return Sym(name, s)
}

// Def names a term (define-fun) unless it is already atomic.
func (vc *VC) Def(base string, t *Term) *Term {
	if t.Op == "const" || t.Op == "sym" || t.Op == "zeroarr" {
		return t
	}
	name := vc.freshName(base)
	vc.Items = append(vc.Items, Item{Kind: itDef, Name: name, Sort: t.Sort, Term: t})
	vc.defs[name] = t
	if t.Sort == SMem && memEpoch != nil {
		memEpoch[name] = curEpoch
	}
	return Sym(name, t.Sort)
}

func (vc *VC) DeclareUF(name string, args []Sort, res Sort) {
	if vc.declared[name] {
		return
	}
	vc.declared[name] = true
	vc.Items = append(vc.Items, Item{Kind: itDecl, Name: name, Sort: res, ASort: args})
}

// DefineRec introduces a recursive integer function (define-fun-rec).
func (vc *VC) DefineRec(name string, params []*Term, body *Term) {
	vc.Items = append(vc.Items, Item{Kind: itDefRec, Name: name, Sort: SInt, Term: body, Params: params})
}

func (vc *VC) Assume(t *Term) {
	if t.IsTrue() {
		return
	}
	vc.Items = append(vc.Items, Item{Kind: itAssume, Term: t})
}

// Oblige records a proof obligation "goal holds". kind is e.g. "nopanic.index"; label, if
// non-empty, replaces the running ordinal.
func (vc *VC) Oblige(kind, label string, goal *Term, pos string) *Obligation {
	var name string
	if label != "" {
		name = fmt.Sprintf("%s#%s.%s", vc.FuncName, kind, label)
		if n := vc.kindCtr[name]; n > 0 {
			vc.kindCtr[name] = n + 1
			name = fmt.Sprintf("%s~%d", name, n+1)
		} else {
			vc.kindCtr[name] = 1
		}
	} else {
		vc.kindCtr[kind]++
		name = fmt.Sprintf("%s#%s.%d", vc.FuncName, kind, vc.kindCtr[kind])
	}
	ob := &Obligation{Name: name, Func: vc.FuncName, Kind: kind, Goal: goal, Index: len(vc.Items), Pos: pos, vc: vc, AbstractNL: vc.pendingNL}
	vc.pendingNL = false
	if ob.AbstractNL && !vc.deferRender {
		// rendered now: the abstraction needs this VC's definition table
		ob.cached = ob.scriptNL(scriptOpt{Models: true})
	}
	vc.Items = append(vc.Items, Item{Kind: itOblig, Ob: ob})
	vc.Obs = append(vc.Obs, ob)
	return ob
}

// Script renders the SMT-LIB query of an obligation.
func (ob *Obligation) Script(timeoutMs int, wantModel bool) string {
	return ob.ScriptOpt(scriptOpt{Models: wantModel})
}

// nlAbstractor replaces products of two non-constant terms by fresh symbols.
type nlAbstractor struct {
	absDiv bool
	memo  map[*Term]*Term
	syms  map[string]string
	decls []string
}

func (na *nlAbstractor) rw(t *Term) *Term {
	if t.Op == "const" || t.Op == "sym" || t.Op == "zeroarr" {
		return t
	}
	if r, ok := na.memo[t]; ok {
		return r
	}
	args := make([]*Term, len(t.Args))
	changed := false
	for i, a := range t.Args {
		args[i] = na.rw(a)
		if args[i] != a {
			changed = true
		}
	}
	r := t
	if changed {
		r = &Term{Op: t.Op, Sort: t.Sort, Args: args, Name: t.Name, Val: t.Val, B: t.B}
	}
	if na.absDiv && (r.Op == "div" || r.Op == "mod") && len(r.Args) == 2 && r.Args[1].IntConst() != nil {
		// x div c becomes an uninterpreted symbol D; x mod c becomes x - c*D
		pc := &polyCtx{}
		key := "div:" + pc.expandFull(r.Args[0], 0).Key() + "/" + r.Args[1].Key()
		name, ok := na.syms[key]
		if !ok {
			name = fmt.Sprintf("dv!%d", len(na.syms))
			na.syms[key] = name
			na.decls = append(na.decls, name)
		}
		d := Sym(name, SInt)
		if r.Op == "div" {
			r = d
		} else {
			r = &Term{Op: "-", Sort: SInt, Args: []*Term{r.Args[0], &Term{Op: "*", Sort: SInt, Args: []*Term{r.Args[1], d}}}}
		}
		na.memo[t] = r
		return r
	}
	if r.Op == "*" {
		nonConst := 0
		for _, a := range r.Args {
			if a.IntConst() == nil {
				nonConst++
			}
		}
		if nonConst >= 2 {
			// distribute over sums, then name every monomial of degree >= 2
			pc := &polyCtx{}
			p := polyLite(t, func(x *Term) *Term { return pc.expandFull(na.rw(x), 0) }, 0)
			if p.fail == "" {
				keys := make([]string, 0, len(p.coef))
				for k := range p.coef {
					keys = append(keys, k)
				}
				sortStrings(keys)
				var parts []*Term
				for _, k := range keys {
					atoms := p.atoms[k]
					var m *Term
					switch len(atoms) {
					case 0:
						m = Int(1)
					case 1:
						m = atoms[0]
					default:
						name, ok := na.syms[k]
						if !ok {
							name = fmt.Sprintf("nl!%d", len(na.syms))
							na.syms[k] = name
							na.decls = append(na.decls, name)
							if os.Getenv("GOCV_DEBUG_POLY") != "" {
								fmt.Fprintf(os.Stderr, "%s = %s\n", name, k)
							}
						}
						m = Sym(name, SInt)
					}
					parts = append(parts, &Term{Op: "*", Sort: SInt, Args: []*Term{IntB(p.coef[k]), m}})
				}
				switch len(parts) {
				case 0:
					r = Int(0)
				case 1:
					r = parts[0]
				default:
					r = &Term{Op: "+", Sort: SInt, Args: parts}
				}
			}
		}
	}
	na.memo[t] = r
	return r
}

func sortStrings(s []string) {
	for i := 1; i < len(s); i++ {
		for j := i; j > 0 && s[j] < s[j-1]; j-- {
			s[j], s[j-1] = s[j-1], s[j]
		}
	}
}

func (ob *Obligation) ScriptOpt(opt scriptOpt) string {
	if ob.AbstractNL && !opt.noNL {
		if ob.cached != "" && !opt.NoCheck && !opt.DropQuant {
			return ob.cached
		}
		return ob.scriptNL(opt)
	}
	return ob.scriptPlain(opt)
}

// scriptNL renders the query with nonlinear products abstracted: the plain script is
// generated from rewritten items.
func (ob *Obligation) scriptNL(opt scriptOpt) string {
	vc := ob.vc
	na := &nlAbstractor{memo: map[*Term]*Term{}, syms: map[string]string{}, absDiv: ob.AbstractDiv}
	saved := make([]*Term, ob.Index)
	for i := 0; i < ob.Index; i++ {
		it := &vc.Items[i]
		saved[i] = it.Term
		if it.Term != nil && (it.Kind == itDef || it.Kind == itAssume) {
			it.Term = na.rw(it.Term)
		}
	}
	goal := ob.Goal
	ob.Goal = na.rw(goal)
	var pre []string
	for _, d := range na.decls {
		pre = append(pre, fmt.Sprintf("(declare-fun %s () Int)", d))
	}
	savedPrelude := vc.Prelude
	vc.Prelude = append(append([]string{}, vc.Prelude...), pre...)
	opt.noNL = true
	out := ob.scriptPlain(opt)
	vc.Prelude = savedPrelude
	ob.Goal = goal
	for i := 0; i < ob.Index; i++ {
		vc.Items[i].Term = saved[i]
	}
	return out
}

func (ob *Obligation) scriptPlain(opt scriptOpt) string {
	vc := ob.vc
	wantModel := opt.Models || opt.NoCheck
	var sb strings.Builder
	if wantModel {
		sb.WriteString("(set-option :produce-models true)\n")
	}
	sb.WriteString("(set-logic ALL)\n(declare-fun STR () (Array Int (Array Int Int)))\n")
	if opt.NoCheck || vc.QF || ob.ExpectSat {
		// z3 session: constant arrays are native there
		sb.WriteString("(define-fun ZERO () (Array Int Int) ((as const (Array Int Int)) 0))\n")
	} else {
		sb.WriteString("(declare-fun ZERO () (Array Int Int))\n(assert (forall ((j Int)) (! (= (select ZERO j) 0) :pattern ((select ZERO j)))))\n")
	}
	for _, l := range vc.Prelude {
		sb.WriteString(l)
		sb.WriteByte('\n')
	}
	// relevance (cone of influence): start from the goal's symbols, follow definitions, and
	// keep an assumption only if it shares a symbol with what is already relevant (to a
	// fixpoint). Dropping assumptions can only make a query harder to refute, never unsound.
	need := map[string]bool{}
	ob.Goal.syms(need)
	if ob.Excuse != nil {
		ob.Excuse.syms(need)
	}
	type itsyms struct {
		syms map[string]bool
	}
	symsOf := make([]map[string]bool, ob.Index)
	defIdx := map[string]int{}
	for i := 0; i < ob.Index; i++ {
		it := &vc.Items[i]
		if it.Term != nil && (it.Kind == itAssume || it.Kind == itDef || it.Kind == itDefRec) {
			m := map[string]bool{}
			it.Term.syms(m)
			symsOf[i] = m
		}
		if it.Kind == itDef || it.Kind == itDefRec {
			defIdx[it.Name] = i
		}
	}
	keep := make([]bool, ob.Index)
	// expand relevance through definitions
	var work []string
	for k := range need {
		work = append(work, k)
	}
	expand := func() {
		for len(work) > 0 {
			k := work[len(work)-1]
			work = work[:len(work)-1]
			if i, ok := defIdx[k]; ok && !keep[i] {
				keep[i] = true
				for s := range symsOf[i] {
					if !need[s] {
						need[s] = true
						work = append(work, s)
					}
				}
			}
		}
	}
	expand()
	generic := map[string]bool{"STR": true, "ZERO": true}
	nAssume := 0
	for i := 0; i < ob.Index; i++ {
		if vc.Items[i].Kind == itAssume {
			nAssume++
		}
	}
	// small queries are sent whole: slicing only pays off on large functions
	if os.Getenv("GOCV_NOSLICE") != "" || nAssume <= sliceMin() {
		for i := 0; i < ob.Index; i++ {
			if vc.Items[i].Kind == itAssume && !keep[i] {
				keep[i] = true
				for s := range symsOf[i] {
					if !need[s] {
						need[s] = true
						work = append(work, s)
					}
				}
				expand()
			}
		}
	}
	for changed := true; changed; {
		changed = false
		for i := 0; i < ob.Index; i++ {
			it := &vc.Items[i]
			if it.Kind != itAssume || keep[i] {
				continue
			}
			hit := len(symsOf[i]) == 0
			for s := range symsOf[i] {
				if need[s] && !generic[s] {
					hit = true
					break
				}
			}
			if !hit {
				continue
			}
			keep[i] = true
			changed = true
			for s := range symsOf[i] {
				if !need[s] {
					need[s] = true
					work = append(work, s)
				}
			}
			expand()
		}
	}
	for i := 0; i < ob.Index; i++ {
		if vc.Items[i].Kind == itDecl && need[vc.Items[i].Name] {
			keep[i] = true
		}
	}
	sp := newSharePrinter()
	for i := 0; i < ob.Index; i++ {
		if keep[i] && (vc.Items[i].Kind == itDef || vc.Items[i].Kind == itAssume) {
			if vc.Items[i].Kind == itAssume && opt.DropQuant && hasQuant(vc.Items[i].Term) {
				continue
			}
			sp.use(vc.Items[i].Term)
		}
	}
	sp.use(ob.Goal)
	sp.use(ob.Excuse)
	for i := 0; i < ob.Index; i++ {
		if !keep[i] {
			continue
		}
		it := &vc.Items[i]
		switch it.Kind {
		case itDecl:
			if it.ASort != nil {
				as := make([]string, len(it.ASort))
				for k, s := range it.ASort {
					as[k] = s.String()
				}
				fmt.Fprintf(&sb, "(declare-fun %s (%s) %s)\n", it.Name, strings.Join(as, " "), it.Sort)
			} else {
				fmt.Fprintf(&sb, "(declare-fun %s () %s)\n", it.Name, it.Sort)
			}
		case itDef:
			body := sp.print(it.Term, &sb)
			fmt.Fprintf(&sb, "(define-fun %s () %s %s)\n", it.Name, it.Sort, body)
		case itDefRec:
			var ps []string
			for _, p := range it.Params {
				ps = append(ps, fmt.Sprintf("(%s %s)", p.Name, p.Sort))
			}
			fmt.Fprintf(&sb, "(define-fun-rec %s (%s) Int %s)\n", it.Name, strings.Join(ps, " "), it.Term)
		case itAssume:
			if opt.DropQuant && hasQuant(it.Term) {
				continue
			}
			body := sp.print(it.Term, &sb)
			fmt.Fprintf(&sb, "(assert %s)\n", body)
		}
	}
	for _, p := range opt.BoundLens {
		lay := layoutOf(p.T)
		for i, lf := range lay.Leaves {
			switch lf.K {
			case LLen:
				fmt.Fprintf(&sb, "(assert (<= %s 4096))\n", p.L[i])
			case LCap:
				fmt.Fprintf(&sb, "(assert (<= %s 8192))\n", p.L[i])
			case LOff:
				if i+1 < len(lay.Leaves) && lay.Leaves[i+1].K == LLen && !lay.Leaves[i-1].Str {
					fmt.Fprintf(&sb, "(assert (<= %s 64))\n", p.L[i])
				} else if p.L[i].IntConst() == nil {
					fmt.Fprintf(&sb, "(assert (= %s 0))\n", p.L[i]) // no interior pointers / string offsets
				}
			}
		}
	}
	// unfolding hints: for every application f(t) of a recursive spec function in the goal,
	// the definition instantiated at t is stated explicitly (redundant with define-fun-rec,
	// but solvers find it far more quickly than by unfolding on their own)
	{
		recs := map[string]*Item{}
		for i := 0; i < ob.Index; i++ {
			if vc.Items[i].Kind == itDefRec && keep[i] {
				recs[vc.Items[i].Name] = &vc.Items[i]
			}
		}
		if len(recs) > 0 {
			seen := map[string]bool{}
			var apps []*Term
			var walk func(t *Term, inQ bool)
			walk = func(t *Term, inQ bool) {
				if t.Op == "forall" || t.Op == "exists" {
					inQ = true
				}
				if it := recs[t.Op]; it != nil && !inQ && len(t.Args) == len(it.Params) && !seen[t.Key()] {
					seen[t.Key()] = true
					apps = append(apps, t)
				}
				for _, a := range t.Args {
					walk(a, inQ)
				}
			}
			walk(ob.Goal, false)
			for n, a := range apps {
				if n >= 6 {
					break
				}
				it := recs[a.Op]
				sub := map[string]*Term{}
				for k, p := range it.Params {
					sub[p.Name] = a.Args[k]
				}
				fmt.Fprintf(&sb, "(assert (= %s %s))\n", a, substSyms(it.Term, sub))
			}
		}
	}
	if ob.ExtraAssume != nil {
		fmt.Fprintf(&sb, "(assert %s)\n", ob.ExtraAssume)
	}
	if ob.Excuse != nil {
		body := sp.print(ob.Excuse, &sb)
		fmt.Fprintf(&sb, "(assert (not %s))\n", body)
	}
	{
		body := sp.print(ob.Goal, &sb)
		if ob.ExpectSat {
			fmt.Fprintf(&sb, "(assert %s)\n", body)
		} else {
			fmt.Fprintf(&sb, "(assert (not %s))\n", body)
		}
	}
	if opt.NoCheck {
		return sb.String()
	}
	sb.WriteString("(check-sat)\n")
	if wantModel {
		sb.WriteString("(get-model)\n")
	}
	return sb.String()
}

// ObligeIdentities emits the algebraic identities left behind by the mod-witness tactic.
func (vc *VC) ObligeIdentities(kind, label string, pos string) {
	ids := vc.pendingIdentity
	vc.pendingIdentity = nil
	for i, id := range ids {
		l := label + ".identity"
		if len(ids) > 1 {
			l = fmt.Sprintf("%s.identity%d", label, i+1)
		}
		vc.pendingNL = true
		vc.deferRender = true
		ob := vc.Oblige(kind, l, id, pos)
		vc.deferRender = false
		ob.AbstractDiv = true
		ob.cached = ob.scriptNL(scriptOpt{Models: true})
	}
}

// sliceMin: VCs with more assumptions than this are sliced to the cone of influence of the goal.
func sliceMin() int {
	n := 150
	if s := os.Getenv("GOCV_SLICE_MIN"); s != "" {
		fmt.Sscan(s, &n)
	}
	return n
}

// substSyms replaces symbols by terms (no capture issues: recursive spec bodies have no binders
// over their parameters).
func substSyms(t *Term, sub map[string]*Term) *Term {
	if t.Op == "sym" {
		if r, ok := sub[t.Name]; ok {
			return r
		}
		return t
	}
	if len(t.Args) == 0 {
		return t
	}
	changed := false
	args := make([]*Term, len(t.Args))
	for i, a := range t.Args {
		args[i] = substSyms(a, sub)
		if args[i] != a {
			changed = true
		}
	}
	if !changed {
		return t
	}
	n := *t
	n.Args = args
	n.key = ""
	return &n
}
