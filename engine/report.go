package main

import (
	"encoding/json"
	"fmt"
	"os"
	"path/filepath"
	"sort"
	"strings"
	"time"
)

// ---------- baseline and known findings ----------

type Baseline struct {
	// per property: obligation names discharged on the unchanged tree
	Discharged map[string][]string `json:"discharged"`
	// obligations generated but not discharged on the unchanged tree and NOT claimed
	Open map[string][]string `json:"open"`
}

type KnownFinding struct {
	Property   string `json:"property"`
	Obligation string `json:"obligation"`
	What       string `json:"what"`
	Witness    string `json:"witness,omitempty"`
	Status     string `json:"status"` // "known" or "fixed"
	Commit     string `json:"commit,omitempty"`
}

type KnownFile struct {
	Findings []KnownFinding `json:"findings"`
}

func loadJSON(path string, v interface{}) error {
	b, err := os.ReadFile(path)
	if err != nil {
		return err
	}
	return json.Unmarshal(b, v)
}

// ---------- check ----------

type obReport struct {
	Name    string  `json:"name"`
	Result  string  `json:"result"`
	Solver  string  `json:"solver,omitempty"`
	Seconds float64 `json:"seconds"`
	Pos     string  `json:"pos,omitempty"`
}

func cmdCheck(mode string, args []string) int {
	cf := parseFlags(args)
	t0 := time.Now()
	eng, err := loadEngine(cf)
	if err != nil {
		fmt.Fprintln(os.Stderr, "gocv: load failed:", err)
		// a tree that does not type-check cannot be verified: broken build, not a verdict
		return 2
	}
	results := generate(eng, cf)
	scratch, err := os.MkdirTemp("", "gocv-*")
	if err != nil {
		fmt.Fprintln(os.Stderr, err)
		return 2
	}
	defer os.RemoveAll(scratch)
	dir := scratch
	keep := false
	if cf.keep != "" {
		os.MkdirAll(cf.keep, 0o755)
		dir, keep = cf.keep, true
	}
	var all []*Obligation
	for _, r := range results {
		if r.VC != nil {
			all = append(all, r.VC.Obs...)
		}
	}
	// goals about a state-dependent recursive spec function after an append are proved by cases
	// (in place / reallocated) straight away: the undivided query regularly times out
	var first []*Obligation
	for _, ob := range all {
		if !ob.ExpectSat && mentionsStateRec(ob.Goal) && splitOnAppend(ob, cf, dir, keep) {
			continue
		}
		first = append(first, ob)
	}
	solveAll(first, solveOpts{TimeoutS: cf.timeout, Workers: cf.workers, Dir: dir, Keep: keep, Only: cf.only, Models: true})

	var bl Baseline
	loadJSON(filepath.Join(cf.verif, "baseline", "obligations.json"), &bl)
	// An obligation that ran out of time is tried once more with three times the budget
	// before it is reported: solver run times vary with machine load, and a timeout is not
	// an answer. (Obligations that were never discharged on the unchanged tree - the open
	// list - are not retried.)
	{
		openSet := map[string]bool{}
		for _, names := range bl.Open {
			for _, n := range names {
				openSet[n] = true
			}
		}
		var retry []*Obligation
		for _, ob := range all {
			if !ob.ExpectSat && !openSet[ob.Name] && (ob.Result == "timeout" || ob.Result == "unknown") {
				retry = append(retry, ob)
			}
		}
		if len(retry) > 0 && len(retry) <= 24 {
			// first a case split on the last append (in place / reallocated), which is where
			// solvers most often get lost; then the plain retry with a larger budget
			var rest []*Obligation
			for _, ob := range retry {
				if splitOnAppend(ob, cf, dir, keep) {
					ob.Retried = true
					continue
				}
				rest = append(rest, ob)
			}
			for _, ob := range rest {
				ob.Result, ob.Output, ob.Solver = "", "", ""
				ob.Retried = true
			}
			if len(rest) > 0 {
				solveAll(rest, solveOpts{TimeoutS: cf.timeout * 3, Workers: cf.workers, Dir: dir, Keep: keep, Only: cf.only, Models: true})
			}
		}
	}
	var kf KnownFile
	loadJSON(filepath.Join(cf.verif, "known_findings.json"), &kf)

	if mode == "baseline" {
		return writeBaseline(cf, &bl, results)
	}
	return report(cf, eng, &bl, &kf, results, time.Since(t0).Seconds())
}

func writeBaseline(cf *checkFlags, bl *Baseline, results []*FuncResult) int {
	if bl.Discharged == nil {
		bl.Discharged = map[string][]string{}
	}
	if bl.Open == nil {
		bl.Open = map[string][]string{}
	}
	props := map[string]bool{}
	for _, r := range results {
		for _, p := range r.Props {
			props[p] = true
		}
	}
	rc := 0
	for p := range props {
		if cf.prop != "" && p != cf.prop {
			continue
		}
		var d, o []string
		for _, r := range results {
			if !hasProp(r.Props, p) || r.VC == nil {
				continue
			}
			for _, ob := range r.VC.Obs {
				if ob.Discharged() {
					d = append(d, ob.Name)
				} else {
					o = append(o, ob.Name)
				}
			}
		}
		sort.Strings(d)
		sort.Strings(o)
		if cf.fn != "" {
			// partial update: merge
			d = mergeNames(bl.Discharged[p], d, o)
			o = mergeNames(bl.Open[p], o, d)
		}
		// an obligation that was claimed (discharged in the old baseline) must never drift
		// into the unclaimed list by a routine re-baseline: refuse unless forced
		wasD := map[string]bool{}
		for _, n := range bl.Discharged[p] {
			wasD[n] = true
		}
		var lost []string
		for _, n := range o {
			if wasD[n] {
				lost = append(lost, n)
			}
		}
		if len(lost) > 0 && os.Getenv("GOCV_BASELINE_FORCE") == "" {
			for _, n := range lost {
				fmt.Printf("  REGRESSION: %s was discharged in the baseline and does not discharge now\n", n)
			}
			fmt.Printf("baseline %s NOT updated (set GOCV_BASELINE_FORCE=1 to drop these claims deliberately)\n", p)
			rc = 1
			continue
		}
		bl.Discharged[p] = d
		bl.Open[p] = o
		fmt.Printf("baseline %s: %d discharged, %d open\n", p, len(d), len(o))
		for _, n := range o {
			fmt.Printf("  OPEN (not claimed, review!): %s\n", n)
		}
	}
	b, _ := json.MarshalIndent(bl, "", " ")
	os.MkdirAll(filepath.Join(cf.verif, "baseline"), 0o755)
	if err := os.WriteFile(filepath.Join(cf.verif, "baseline", "obligations.json"), append(b, '\n'), 0o644); err != nil {
		fmt.Fprintln(os.Stderr, err)
		return 2
	}
	return rc
}

func mergeNames(old, add, remove []string) []string {
	m := map[string]bool{}
	for _, x := range old {
		m[x] = true
	}
	for _, x := range remove {
		delete(m, x)
	}
	for _, x := range add {
		m[x] = true
	}
	return sortedKeys(m)
}

func hasProp(ps []string, p string) bool {
	for _, x := range ps {
		if x == p {
			return true
		}
	}
	return false
}

func report(cf *checkFlags, eng *Eng, bl *Baseline, kf *KnownFile, results []*FuncResult, wall float64) int {
	prop := cf.prop
	open := map[string]bool{}
	base := map[string]bool{}
	for p, names := range bl.Open {
		if prop == "" || p == prop {
			for _, n := range names {
				open[n] = true
			}
		}
	}
	for p, names := range bl.Discharged {
		if prop == "" || p == prop {
			for _, n := range names {
				base[n] = true
			}
		}
	}
	known := map[string]KnownFinding{}
	for _, k := range kf.Findings {
		if k.Status == "known" && (prop == "" || k.Property == prop) {
			known[k.Obligation] = k
		}
	}
	generated := map[string]*Obligation{}
	var nObl, nDis int
	var violations, undecided, knownHit []string
	var obs []obReport
	solverSecs := map[string]float64{}
	solverCnt := map[string]int{}
	var funcs, assumed, abstracted, trusted []string
	var errs []string
	var bindingViol [][2]string
	for _, r := range results {
		if r.Assumed {
			assumed = append(assumed, r.Name)
			continue
		}
		if r.Err != "" {
			errs = append(errs, r.Name+": "+r.Err)
			// A function whose obligations were discharged on the unchanged tree and whose
			// contract no longer binds to the code (a name it mentions is gone, a construct
			// is outside the subset): the property is no longer established for it. That is
			// reported as a violation of the named pseudo-obligation, not passed over.
			claimed := false
			for n := range base {
				if strings.HasPrefix(n, r.Name+"#") {
					claimed = true
					break
				}
			}
			if claimed {
				fmt.Printf("UNDECIDED property=%s function=%s reason=%s\n", prop, r.Name, r.Err)
				bindingViol = append(bindingViol, [2]string{r.Name + "#contract", r.Err})
				continue
			}
			fmt.Printf("UNDECIDED property=%s function=%s reason=%s\n", prop, r.Name, r.Err)
			undecided = append(undecided, r.Name+": "+r.Err)
			continue
		}
		if r.VC == nil {
			continue
		}
		funcs = append(funcs, r.Name)
		for _, a := range r.VC.Assumed {
			trusted = appendUniq(trusted, a)
		}
		for _, a := range r.VC.Abstracted {
			abstracted = appendUniq(abstracted, a)
		}
		for _, ob := range r.VC.Obs {
			generated[ob.Name] = ob
			obs = append(obs, obReport{ob.Name, ob.Result, ob.Solver, ob.Seconds, ob.Pos})
			if ob.Solver != "" {
				solverSecs[ob.Solver] += ob.Seconds
				solverCnt[ob.Solver]++
			}
			if cf.verbose {
				fmt.Printf("  %-8s %-7s %6.2fs %s  %s\n", ob.Result, ob.Solver, ob.Seconds, ob.Name, ob.Pos)
			}
			if open[ob.Name] {
				continue // not claimed
			}
			nObl++
			if ob.Discharged() {
				nDis++
				continue
			}
			if k, ok := known[ob.Name]; ok {
				knownHit = append(knownHit, fmt.Sprintf("KNOWN-FINDING: property=%s %s [%s]", k.Property, k.What, ob.Name))
				nObl--
				continue
			}
			violations = append(violations, ob.Name)
		}
	}
	// baseline obligations that no longer exist: contract does not bind
	for n := range base {
		if _, ok := generated[n]; !ok && (cf.fn == "") {
			// only if its function was supposed to be generated in this run
			undecided = append(undecided, n+": obligation not generated (binding)")
			fmt.Printf("UNDECIDED property=%s obligation=%s reason=binding\n", prop, n)
		}
	}
	for _, k := range knownHit {
		fmt.Println(k)
	}
	exit := 0
	replayDir := filepath.Join(cf.verif, "replays", prop)
	for _, bv := range bindingViol {
		os.MkdirAll(replayDir, 0o755)
		path := filepath.Join(replayDir, sanitize(bv[0])+".json")
		rp := map[string]interface{}{"property": prop, "obligation": bv[0], "result": "contract-does-not-bind",
			"solver_output": bv[1], "note": "the function had discharged obligations on the unchanged tree; its contract can no longer be evaluated on the current code, so none of them is established"}
		b, _ := json.MarshalIndent(rp, "", " ")
		os.WriteFile(path, b, 0o644)
		fmt.Printf("VIOLATION property=%s replay=%s obligation=%s result=contract-does-not-bind no-failing-input-found\n", prop, path, bv[0])
		exit = 1
	}
	for _, v := range violations {
		ob := generated[v]
		os.MkdirAll(replayDir, 0o755)
		path := filepath.Join(replayDir, sanitize(v)+".json")
		rp := map[string]interface{}{"property": prop, "obligation": v, "result": ob.Result, "solver": ob.Solver,
			"pos": ob.Pos, "solver_output": truncate(ob.Output, 20000)}
		suffix := " no-failing-input-found"
		if ob.ExpectSat {
			rp["note"] = "vacuity: the function's preconditions are contradictory"
		}
		confirmed, detail := false, "replay not attempted (-noreplay)"
		if !cf.noreplay {
			confirmed, detail = tryReplay(cf, eng, ob, rp)
		}
		if confirmed {
			suffix = ""
		}
		rp["replay"] = detail
		b, _ := json.MarshalIndent(rp, "", " ")
		os.WriteFile(path, b, 0o644)
		fmt.Printf("VIOLATION property=%s replay=%s obligation=%s result=%s%s\n", prop, path, v, ob.Result, suffix)
		exit = 1
	}
	if len(errs) > 0 && nObl == 0 {
		exit = 2
	}
	writeEvidence(cf, prop, nObl+len(bindingViol), nDis, len(violations)+len(bindingViol), funcs, assumed, abstracted, trusted, undecided, knownHit, obs, solverSecs, solverCnt, wall, eng)
	fmt.Printf("property=%s tier=%s functions=%d obligations=%d discharged=%d violations=%d undecided=%d known=%d wall=%.1fs\n",
		prop, cf.tier, len(funcs), nObl+len(bindingViol), nDis, len(violations)+len(bindingViol), len(undecided), len(knownHit), wall)
	return exit
}

func truncate(s string, n int) string {
	if len(s) > n {
		return s[:n] + "…"
	}
	return s
}

func writeEvidence(cf *checkFlags, prop string, nObl, nDis, nViol int, funcs, assumed, abstracted, trusted, undecided, known []string,
	obs []obReport, solverSecs map[string]float64, solverCnt map[string]int, wall float64, eng *Eng) {
	if prop == "" || cf.fn != "" {
		return
	}
	seed := 0
	fmt.Sscan(os.Getenv("VERIF_SEED"), &seed)
	var samples []interface{}
	for i, o := range obs {
		if i%(len(obs)/8+1) == 0 {
			samples = append(samples, o)
		}
	}
	sort.Strings(funcs)
	tb := []string{
		"gocv VC generator (/verif/engine): SSA->SMT translation, memory model, panic edges",
		"SMT solvers z3 5.1.0, z3 4.8.12, cvc5 1.0.3 (raced; disagreement aborts)",
		"go/types, go/ssa (x/tools v0.29.0), the Go compiler and runtime",
		"Go type safety: values read from memory lie in the range of their static type; no slice longer than 2^48 elements",
		"sequential reading of code; abstracted calls assumed not to panic; contracted callees do not retain references to caller locals",
	}
	tb = append(tb, trusted...)
	ev := map[string]interface{}{
		"property_id": prop,
		"tier":        cf.tier,
		"seed":        seed,
		"level":       "proof",
		"wall_s":      wall,
		"violations":  nViol,
		"coverage": map[string]interface{}{
			"obligations":          nObl,
			"discharged":           nDis,
			"checker_cmd":          fmt.Sprintf("/verif/bin/gocv check -prop %s -tier %s", prop, cf.tier),
			"trusted_base":         tb,
			"functions_under_contract": funcs,
			"assumed_contracts":    assumed,
			"abstracted":           abstracted,
			"undecided":            undecided,
			"known_findings":       known,
			"solver_seconds":       solverSecs,
			"solver_wins":          solverCnt,
			"load_seconds":         eng.loadSecs,
			"samples":              samples,
			"obligation_results":   obs,
			"open_not_claimed":     openList(cf, prop),
			"per_obligation_timeout_s": cf.timeout,
		},
		"assumptions": append(append([]string{}, tb...), abstracted...),
	}
	b, _ := json.MarshalIndent(ev, "", " ")
	os.MkdirAll(filepath.Join(cf.verif, "evidence"), 0o755)
	os.WriteFile(filepath.Join(cf.verif, "evidence", prop+".json"), append(b, '\n'), 0o644)
}

var _ = strings.TrimSpace

// openList: obligations of the property that were never discharged on the unchanged tree and
// are therefore not claimed (they do not count as obligations of the check).
func openList(cf *checkFlags, prop string) []string {
	var bl Baseline
	loadJSON(filepath.Join(cf.verif, "baseline", "obligations.json"), &bl)
	out := append([]string{}, bl.Open[prop]...)
	sort.Strings(out)
	return out
}

// splitOnAppend proves an obligation by cases on the condition of the last append before it
// (the appended elements fit in place / a new array is allocated). Both cases must be unsat.
func splitOnAppend(ob *Obligation, cf *checkFlags, dir string, keep bool) bool {
	if ob.vc == nil || ob.cached != "" {
		return false
	}
	var cond *Term
	for i := 0; i < ob.Index && i < len(ob.vc.Items); i++ {
		it := &ob.vc.Items[i]
		if it.Kind == itDef && it.Sort == SBool && strings.HasPrefix(it.Name, "app_fits") {
			cond = Sym(it.Name, SBool)
		}
	}
	if cond == nil {
		return false
	}
	a, b := *ob, *ob
	a.Name, b.Name = ob.Name+"~inplace", ob.Name+"~grown"
	a.ExtraAssume, b.ExtraAssume = cond, Not(cond)
	a.Result, a.Output, a.Solver, b.Result, b.Output, b.Solver = "", "", "", "", "", ""
	solveAll([]*Obligation{&a, &b}, solveOpts{TimeoutS: cf.timeout, Workers: 2, Dir: dir, Keep: keep, Only: cf.only, Models: false})
	if a.Result == "unsat" && b.Result == "unsat" {
		ob.Result = "unsat"
		ob.Solver = "split(" + cond.Name + "):" + a.Solver + "+" + b.Solver
		ob.Seconds = a.Seconds + b.Seconds
		ob.Output = "proved by cases on " + cond.Name
		return true
	}
	return false
}

func mentionsStateRec(t *Term) bool {
	if t == nil {
		return false
	}
	if strings.HasPrefix(t.Op, "sr_") {
		return true
	}
	for _, a := range t.Args {
		if mentionsStateRec(a) {
			return true
		}
	}
	return false
}
