package main

// SMT term DAG with simplifying constructors. Sorts: Int, Bool, Arr (Array Int Int),
// Mem (Array Int (Array Int Int)). Everything the VC generator emits goes through here.

import (
	"os"
	"fmt"
	"math/big"
	"sort"
	"strings"
)

type Sort int

const (
	SInt Sort = iota
	SBool
	SArr
	SMem
)

func (s Sort) String() string {
	switch s {
	case SInt:
		return "Int"
	case SBool:
		return "Bool"
	case SArr:
		return "(Array Int Int)"
	case SMem:
		return "(Array Int (Array Int Int))"
	}
	return "?"
}

type Term struct {
	Op   string // "const", "sym", or SMT operator
	Sort Sort
	Val  *big.Int // for Int const
	B    bool     // for Bool const
	Name string   // for sym
	Args []*Term
	key  string
}

var (
	tTrue  = &Term{Op: "const", Sort: SBool, B: true, key: "true"}
	tFalse = &Term{Op: "const", Sort: SBool, B: false, key: "false"}
)

var intCache = map[string]*Term{}

func IntB(v *big.Int) *Term {
	k := v.String()
	if t, ok := intCache[k]; ok {
		return t
	}
	t := &Term{Op: "const", Sort: SInt, Val: new(big.Int).Set(v), key: k}
	intCache[k] = t
	return t
}
func Int(v int64) *Term { return IntB(big.NewInt(v)) }
func Pow2(k uint) *Term  { return IntB(new(big.Int).Lsh(big.NewInt(1), k)) }
func Bool(b bool) *Term {
	if b {
		return tTrue
	}
	return tFalse
}

func Sym(name string, s Sort) *Term { return &Term{Op: "sym", Sort: s, Name: name, key: name} }

func (t *Term) IsConst() bool     { return t.Op == "const" }
func (t *Term) IsTrue() bool      { return t == tTrue || (t.Op == "const" && t.Sort == SBool && t.B) }
func (t *Term) IsFalse() bool     { return t == tFalse || (t.Op == "const" && t.Sort == SBool && !t.B) }
func (t *Term) IntConst() *big.Int {
	if t.Op == "const" && t.Sort == SInt {
		return t.Val
	}
	return nil
}

func (t *Term) Key() string {
	if t.key != "" {
		return t.key
	}
	var sb strings.Builder
	sb.WriteByte('(')
	sb.WriteString(t.Op)
	for _, a := range t.Args {
		sb.WriteByte(' ')
		sb.WriteString(a.Key())
	}
	sb.WriteByte(')')
	t.key = sb.String()
	return t.key
}

func (t *Term) String() string {
	switch t.Op {
	case "const":
		if t.Sort == SBool {
			if t.B {
				return "true"
			}
			return "false"
		}
		if t.Val.Sign() < 0 {
			return "(- " + new(big.Int).Neg(t.Val).String() + ")"
		}
		return t.Val.String()
	case "sym":
		return t.Name
	case "zeroarr":
		return "ZERO"
	}
	var sb strings.Builder
	t.write(&sb)
	return sb.String()
}

func (t *Term) write(sb *strings.Builder) {
	switch t.Op {
	case "const", "sym", "zeroarr":
		sb.WriteString(t.String())
		return
	case "forall", "exists":
		// Args[0..n-2] bound syms, Args[n-1] body; Name may hold pattern term index list
		sb.WriteString("(" + t.Op + " (")
		n := len(t.Args) - 1
		for i := 0; i < n; i++ {
			fmt.Fprintf(sb, "(%s %s)", t.Args[i].Name, t.Args[i].Sort)
		}
		sb.WriteString(") ")
		t.Args[n].write(sb)
		sb.WriteString(")")
		return
	case "pat":
		// (! body :pattern (p1 p2...))
		sb.WriteString("(! ")
		t.Args[0].write(sb)
		sb.WriteString(" :pattern (")
		for i, p := range t.Args[1:] {
			if i > 0 {
				sb.WriteByte(' ')
			}
			p.write(sb)
		}
		sb.WriteString("))")
		return
	}
	sb.WriteByte('(')
	sb.WriteString(t.Op)
	for _, a := range t.Args {
		sb.WriteByte(' ')
		a.write(sb)
	}
	sb.WriteByte(')')
}

func mk(op string, s Sort, args ...*Term) *Term { return &Term{Op: op, Sort: s, Args: args} }

// ---------- boolean ----------

func Not(a *Term) *Term {
	if a.IsTrue() {
		return tFalse
	}
	if a.IsFalse() {
		return tTrue
	}
	if a.Op == "not" {
		return a.Args[0]
	}
	return mk("not", SBool, a)
}

func And(xs ...*Term) *Term {
	var out []*Term
	seen := map[string]bool{}
	for _, x := range xs {
		if x.IsFalse() {
			return tFalse
		}
		if x.IsTrue() {
			continue
		}
		if x.Op == "and" {
			for _, y := range x.Args {
				if !seen[y.Key()] {
					seen[y.Key()] = true
					out = append(out, y)
				}
			}
			continue
		}
		if !seen[x.Key()] {
			seen[x.Key()] = true
			out = append(out, x)
		}
	}
	if len(out) == 0 {
		return tTrue
	}
	if len(out) == 1 {
		return out[0]
	}
	return mk("and", SBool, out...)
}

func Or(xs ...*Term) *Term {
	var out []*Term
	seen := map[string]bool{}
	for _, x := range xs {
		if x.IsTrue() {
			return tTrue
		}
		if x.IsFalse() {
			continue
		}
		if x.Op == "or" {
			for _, y := range x.Args {
				if !seen[y.Key()] {
					seen[y.Key()] = true
					out = append(out, y)
				}
			}
			continue
		}
		if !seen[x.Key()] {
			seen[x.Key()] = true
			out = append(out, x)
		}
	}
	if len(out) == 0 {
		return tFalse
	}
	if len(out) == 1 {
		return out[0]
	}
	return mk("or", SBool, out...)
}

func Implies(a, b *Term) *Term {
	if a.IsTrue() {
		return b
	}
	if a.IsFalse() || b.IsTrue() {
		return tTrue
	}
	if b.IsFalse() {
		return Not(a)
	}
	return mk("=>", SBool, a, b)
}

func Ite(c, a, b *Term) *Term {
	if c.IsTrue() {
		return a
	}
	if c.IsFalse() {
		return b
	}
	if a == b || a.Key() == b.Key() {
		return a
	}
	if a.Sort == SBool {
		if a.IsTrue() && b.IsFalse() {
			return c
		}
		if a.IsFalse() && b.IsTrue() {
			return Not(c)
		}
	}
	return mk("ite", a.Sort, c, a, b)
}

func Eq(a, b *Term) *Term {
	if a == b {
		return tTrue
	}
	if a.IsConst() && b.IsConst() {
		if a.Sort == SInt {
			return Bool(a.Val.Cmp(b.Val) == 0)
		}
		if a.Sort == SBool {
			return Bool(a.B == b.B)
		}
	}
	if a.Sort == SBool {
		if b.IsTrue() {
			return a
		}
		if b.IsFalse() {
			return Not(a)
		}
		if a.IsTrue() {
			return b
		}
		if a.IsFalse() {
			return Not(b)
		}
	}
	if a.Key() == b.Key() {
		return tTrue
	}
	return mk("=", SBool, a, b)
}
func Ne(a, b *Term) *Term { return Not(Eq(a, b)) }

// ---------- integer ----------

func cmp(op string, a, b *Term, f func(int) bool) *Term {
	if x, y := a.IntConst(), b.IntConst(); x != nil && y != nil {
		return Bool(f(x.Cmp(y)))
	}
	if a.Key() == b.Key() {
		return Bool(f(0))
	}
	return mk(op, SBool, a, b)
}
func Lt(a, b *Term) *Term { return cmp("<", a, b, func(c int) bool { return c < 0 }) }
func Le(a, b *Term) *Term { return cmp("<=", a, b, func(c int) bool { return c <= 0 }) }
func Gt(a, b *Term) *Term { return Lt(b, a) }
func Ge(a, b *Term) *Term { return Le(b, a) }

func Add(xs ...*Term) *Term {
	acc := new(big.Int)
	var out []*Term
	for _, x := range xs {
		if c := x.IntConst(); c != nil {
			acc.Add(acc, c)
			continue
		}
		if x.Op == "+" {
			for _, y := range x.Args {
				if c := y.IntConst(); c != nil {
					acc.Add(acc, c)
				} else {
					out = append(out, y)
				}
			}
			continue
		}
		out = append(out, x)
	}
	if len(out) == 0 {
		return IntB(acc)
	}
	if acc.Sign() != 0 {
		out = append(out, IntB(acc))
	}
	if len(out) == 1 {
		return out[0]
	}
	return mk("+", SInt, out...)
}

func Neg(a *Term) *Term {
	if c := a.IntConst(); c != nil {
		return IntB(new(big.Int).Neg(c))
	}
	return mk("-", SInt, a)
}

func Sub(a, b *Term) *Term {
	if c := b.IntConst(); c != nil {
		return Add(a, IntB(new(big.Int).Neg(c)))
	}
	if a.Key() == b.Key() {
		return Int(0)
	}
	if c := a.IntConst(); c != nil && c.Sign() == 0 {
		return Neg(b)
	}
	return mk("-", SInt, a, b)
}

func Mul(a, b *Term) *Term {
	x, y := a.IntConst(), b.IntConst()
	if x != nil && y != nil {
		return IntB(new(big.Int).Mul(x, y))
	}
	if x != nil {
		a, b, x, y = b, a, y, x
	}
	if y != nil {
		if y.Sign() == 0 {
			return Int(0)
		}
		if y.Cmp(big.NewInt(1)) == 0 {
			return a
		}
		if a.Op == "*" && len(a.Args) == 2 {
			if c := a.Args[1].IntConst(); c != nil {
				return Mul(a.Args[0], IntB(new(big.Int).Mul(c, y)))
			}
		}
	}
	return mk("*", SInt, a, b)
}

// Div and Mod are SMT-LIB (Euclidean) div/mod.
func Div(a, b *Term) *Term {
	x, y := a.IntConst(), b.IntConst()
	if x != nil && y != nil && y.Sign() != 0 {
		q, m := new(big.Int), new(big.Int)
		q.DivMod(x, y, m) // Euclidean
		return IntB(q)
	}
	if y != nil && y.Cmp(big.NewInt(1)) == 0 {
		return a
	}
	return mk("div", SInt, a, b)
}

func Mod(a, b *Term) *Term {
	x, y := a.IntConst(), b.IntConst()
	if x != nil && y != nil && y.Sign() != 0 {
		q, m := new(big.Int), new(big.Int)
		q.DivMod(x, y, m)
		return IntB(m)
	}
	if y != nil && y.Cmp(big.NewInt(1)) == 0 {
		return Int(0)
	}
	// (x mod m) mod m
	if a.Op == "mod" && a.Args[1].Key() == b.Key() {
		return a
	}
	return mk("mod", SInt, a, b)
}

// ---------- arrays ----------

var zeroArr = &Term{Op: "zeroarr", Sort: SArr, key: "zeroarr"}

// curDefs maps definition names of the VC being generated to their bodies, so that the
// array simplifier can look through named memory versions.
var curDefs map[string]*Term

func expandDef(t *Term) *Term {
	for t.Op == "sym" && curDefs != nil {
		d, ok := curDefs[t.Name]
		if !ok {
			break
		}
		t = d
	}
	return t
}

func Select(a, i *Term) *Term { return selectDepth(a, i, 6) }

// SelectDeep resolves a read through arbitrarily nested branch merges (memoised on the
// merged terms, so shared sub-DAGs are visited once). Used for the few reads whose
// syntactic value matters (result slots at panic points).
func SelectDeep(a, i *Term) *Term {
	memo := map[*Term]*Term{}
	var rec func(a *Term, depth int) *Term
	rec = func(a *Term, depth int) *Term {
		if r, ok := memo[a]; ok {
			return r
		}
		var out *Term
		cur := a
		for out == nil {
			c := expandDef(cur)
			switch {
			case c.Op == "store":
				j := c.Args[1]
				if j.Key() == i.Key() || sameIdx(i, j) {
					out = c.Args[2]
				} else if distinctIdx(i, j) {
					cur = c.Args[0]
				} else {
					out = selectDepth(cur, i, 0)
				}
			case c.Op == "zeroarr":
				out = Int(0)
			case c.Op == "ite" && depth < 400:
				x, y := rec(c.Args[1], depth+1), rec(c.Args[2], depth+1)
				if x.Key() == y.Key() {
					out = x
				} else {
					out = Ite(c.Args[0], x, y)
				}
			default:
				out = selectDepth(cur, i, 0)
			}
		}
		memo[a] = out
		return out
	}
	return rec(a, 0)
}

func selectDepth(a, i *Term, budget int) *Term {
	cur := a
	for {
		c := expandDef(cur)
		if c.Op == "store" {
			j := c.Args[1]
			if j.Key() == i.Key() || sameIdx(i, j) {
				return c.Args[2]
			}
			if distinctIdx(i, j) {
				cur = c.Args[0]
				continue
			}
		} else if c.Op == "zeroarr" {
			return Int(0)
		} else if c.Op == "ite" && budget > 0 {
			x := selectDepth(c.Args[1], i, budget-1)
			y := selectDepth(c.Args[2], i, budget-1)
			if x.Key() == y.Key() {
				return x
			}
			// keep the pushed-down form only when it did not grow the term beyond the
			// plain select: both sides resolved to something other than a raw select of
			// the branch itself
			if a.Sort == SMem || !(isRawSelect(x, c.Args[1]) && isRawSelect(y, c.Args[2])) {
				return Ite(c.Args[0], x, y)
			}
		}
		break
	}
	s := SInt
	if cur.Sort == SMem {
		s = SArr
	}
	return mk("select", s, cur, i)
}

// leafTag names the primitive cell type of a leaf; cells of different tags never overlap
// in a type-safe Go program (no unsafe), which lets reads skip unrelated writes.
func leafTag(lf Leaf) string {
	switch lf.K {
	case LInt:
		return fmt.Sprintf("i:%d", lf.B.Kind())
	case LBool:
		return "bool"
	case LObj:
		if lf.Str {
			return "sobj"
		}
		return "obj:" + lf.PT
	case LOff:
		return "off:" + lf.PT
	case LLen:
		return "len:" + lf.PT
	case LCap:
		return "cap:" + lf.PT
	}
	return ""
}

// readCell reads cell idx of object obj from memory m, skipping writes of other cell types.
func readCell(m, obj, idx *Term, tag string) *Term {
	cur := m
	if tag != "" {
		cur = readThrough(m, obj, tag, 0)
	}
	return selectTagged(Select(cur, obj), idx, tag)
}

// readThrough returns an earlier memory version that holds the same value for every cell of
// type `tag` in object obj (writes to provably different objects and writes of other cell
// types are skipped).
var debugRT = os.Getenv("GOCV_DEBUG_RT") != ""

func readThrough(m, obj *Term, tag string, depth int) *Term {
	cur := m
	for steps := 0; steps < 400 && depth < 40; steps++ {
		c := expandDef(cur)
		if c.Op == "ite" && c.Sort == SMem {
			r1 := readThrough(c.Args[1], obj, tag, depth+1)
			r2 := readThrough(c.Args[2], obj, tag, depth+1)
			if r1.Key() == r2.Key() {
				cur = r1
				continue
			}
			if r1 != c.Args[1] || r2 != c.Args[2] {
				return Ite(c.Args[0], r1, r2)
			}
			break
		}
		if c.Op != "store" || c.Sort != SMem {
			break
		}
		o, arr := c.Args[1], c.Args[2]
		if strings.HasPrefix(c.Name, "hv:") && c.Name[3:] != tag {
			// a havoc of cells of another cell type only
			cur = c.Args[0]
			continue
		}
		if sameIdx(o, obj) {
			break
		}
		if distinctIdx(o, obj) {
			cur = c.Args[0]
			continue
		}
		// aliasing unknown: both cases must lead to the same earlier memory
		mb, ob, ok := bottomOtherTags(arr, tag)
		if !ok || !sameIdx(ob, o) {
			if debugRT {
				b, hb := objBound[obj.Key()]
				e, he := allocEpoch[o.Key()]
				fmt.Fprintf(os.Stderr, "readThrough(%s) stops at store to %s (bottom ok=%v) in %s; obj=%s bound=%v/%v allocEpoch=%v/%v cur=%d\n", tag, o, ok, cur, obj, b, hb, e, he, curEpoch)
			}
			break
		}
		c1 := readThrough(mb, obj, tag, depth+1)
		c2 := readThrough(c.Args[0], obj, tag, depth+1)
		if c1.Key() == c2.Key() {
			cur = c1
			continue
		}
		break
	}
	return cur
}

// bottomOtherTags: arr = select(mb, ob) updated only by stores of cell types other than tag.
func bottomOtherTags(arr *Term, tag string) (mb, ob *Term, ok bool) {
	a := expandDef(arr)
	for steps := 0; steps < 4096; steps++ {
		if a.Op == "store" {
			if a.Name == "" || a.Name == tag {
				return nil, nil, false
			}
			a = expandDef(a.Args[0])
			continue
		}
		if a.Op == "select" && a.Sort == SArr {
			return a.Args[0], a.Args[1], true
		}
		if a.Op == "ite" && a.Sort == SArr {
			// a branch merge: both sides must bottom out in the same object
			m1, o1, ok1 := bottomOtherTags(a.Args[1], tag)
			m2, o2, ok2 := bottomOtherTags(a.Args[2], tag)
			if ok1 && ok2 && sameIdx(o1, o2) {
				if m1.Key() == m2.Key() {
					return m1, o1, true
				}
				return Ite(a.Args[0], m1, m2), o1, true
			}
		}
		return nil, nil, false
	}
	return nil, nil, false
}

func sameMem(a, b *Term) bool {
	if a == b || a.Key() == b.Key() {
		return true
	}
	return expandDef(a).Key() == expandDef(b).Key()
}

// selectTagged: select on a cell array, skipping stores tagged with another cell type.
func selectTagged(a, i *Term, tag string) *Term {
	if tag == "" {
		return Select(a, i)
	}
	cur := a
	for steps := 0; steps < 4096; steps++ {
		c := expandDef(cur)
		if c.Op == "store" && c.Sort == SArr {
			if c.Name != "" && c.Name != tag {
				cur = c.Args[0]
				continue
			}
			j := c.Args[1]
			if j.Key() == i.Key() || sameIdx(i, j) {
				return c.Args[2]
			}
			if distinctIdx(i, j) {
				cur = c.Args[0]
				continue
			}
		}
		break
	}
	return Select(cur, i)
}

func isRawSelect(t, arr *Term) bool {
	return t.Op == "select" && t.Args[0] == arr
}

// normIdx expands definitions of an index term into (base key, constant offset).
func normIdx(t *Term) (string, *big.Int) {
	off := new(big.Int)
	for k := 0; k < 64; k++ {
		t = expandDefShallow(t)
		if c := t.IntConst(); c != nil {
			return "", off.Add(off, c)
		}
		if t.Op == "+" {
			last := t.Args[len(t.Args)-1]
			if c := last.IntConst(); c != nil && len(t.Args) == 2 {
				off.Add(off, c)
				t = t.Args[0]
				continue
			}
		}
		break
	}
	return t.Key(), off
}

func expandDefShallow(t *Term) *Term {
	for t.Op == "sym" && curDefs != nil {
		d, ok := curDefs[t.Name]
		if !ok || !(d.Op == "sym" || d.Op == "const" || d.Op == "+") {
			break
		}
		t = d
	}
	return t
}

func sameIdx(i, j *Term) bool {
	bi, ci := normIdx(i)
	bj, cj := normIdx(j)
	return bi == bj && ci.Cmp(cj) == 0
}

// Allocation epochs (per VC): every change of the allocation counter starts a new epoch.
// objBound[key] = e means the term is an object id known to be below the allocation
// counter of epoch e (a parameter, a pointer loaded from memory, a call result);
// allocEpoch[key] = e means the term is the id of an object allocated in epoch e, i.e. it
// equals the counter value of that epoch. The counter is monotone along every path, so
// bound <= epoch implies the two ids differ.
var (
	objBound   map[string]int
	allocEpoch map[string]int
	memEpoch   map[string]int // memory version name -> epoch in which it was created
	privObjKeys map[string]bool // ids of private locals (their address never leaves the function): no loaded pointer, parameter or call result can equal them
	memAllocOf map[string]*Term // memory version name -> allocation counter of a state in which it was the current memory
	curEpoch   int
)

// boundFromCell: a reference read from cell term c (select (select M obj) idx) existed when
// memory version M was created, so it is below the allocation counter of that epoch.
func boundFromCell(c *Term) (int, bool) {
	if c.Op == "select" && len(c.Args) == 2 && c.Args[0].Op == "select" {
		m := c.Args[0].Args[0]
		if m.Op == "sym" {
			if e, ok := memEpoch[m.Name]; ok {
				return e, true
			}
		}
	}
	return 0, false
}

// allocOfCell: the allocation counter that bounds a reference read from cell term c, if the
// memory version it was read from is known to have been current with that counter.
func allocOfCell(c *Term) *Term {
	if memAllocOf == nil {
		return nil
	}
	if c.Op == "select" && len(c.Args) == 2 && c.Args[0].Op == "select" {
		if m := c.Args[0].Args[0]; m.Op == "sym" {
			return memAllocOf[m.Name]
		}
	}
	return nil
}

func noteObjBound(t *Term) {
	if t == nil || t.IntConst() != nil || objBound == nil {
		return
	}
	k := t.Key()
	if _, ok := objBound[k]; !ok {
		if _, isAlloc := allocEpoch[k]; !isAlloc {
			objBound[k] = curEpoch
		}
	}
}

// dynBase names the symbol that is >= every pre-existing object id (set per VC).
var dynBase string

// distinctIdx reports whether two index terms are provably different: same base with
// different constant offsets, or a small constant (global / string object) against a
// run-time allocated object.
func distinctIdx(i, j *Term) bool {
	bi, ci := normIdx(i)
	bj, cj := normIdx(j)
	if bi == bj {
		return ci.Cmp(cj) != 0
	}
	if objBound != nil {
		ki, kj := i.Key(), j.Key()
		if privObjKeys != nil {
			if _, loaded := objBound[kj]; loaded && privObjKeys[ki] {
				return true
			}
			if _, loaded := objBound[ki]; loaded && privObjKeys[kj] {
				return true
			}
		}
		if b, ok := objBound[ki]; ok {
			if e, ok2 := allocEpoch[kj]; ok2 && b <= e {
				return true
			}
		}
		if b, ok := objBound[kj]; ok {
			if e, ok2 := allocEpoch[ki]; ok2 && b <= e {
				return true
			}
		}
		if e1, ok := allocEpoch[ki]; ok {
			if e2, ok2 := allocEpoch[kj]; ok2 && e1 != e2 {
				return true
			}
		}
	}
	if dynBase != "" {
		lim := big.NewInt(firstDynObj)
		if bi == "" && bj == dynBase && ci.Cmp(lim) < 0 && cj.Sign() >= 0 {
			return true
		}
		if bj == "" && bi == dynBase && cj.Cmp(lim) < 0 && ci.Sign() >= 0 {
			return true
		}
	}
	return false
}

func splitConst(t *Term) (string, *big.Int) { return normIdx(t) }

func Store(a, i, v *Term) *Term {
	if a.Op == "store" && (a.Args[1].Key() == i.Key() || sameIdx(a.Args[1], i)) {
		a = a.Args[0]
	}
	return mk("store", a.Sort, a, i, v)
}

// ---------- quantifiers ----------

func Forall(vars []*Term, body *Term, pats ...*Term) *Term {
	if body.IsTrue() {
		return tTrue
	}
	if len(pats) > 0 {
		body = mk("pat", SBool, append([]*Term{body}, pats...)...)
	}
	return mk("forall", SBool, append(append([]*Term{}, vars...), body)...)
}

func Exists(vars []*Term, body *Term) *Term {
	if body.IsFalse() {
		return tFalse
	}
	return mk("exists", SBool, append(append([]*Term{}, vars...), body)...)
}

// App is an uninterpreted/defined function application.
func App(name string, s Sort, args ...*Term) *Term { return mk(name, s, args...) }

// syms collects free symbol names of a term.
func (t *Term) syms(into map[string]bool) {
	switch t.Op {
	case "const", "zeroarr":
		return
	case "sym":
		into[t.Name] = true
		return
	}
	for _, a := range t.Args {
		a.syms(into)
	}
	if !isBuiltinOp(t.Op) {
		into[t.Op] = true
	}
}

var builtinOps = map[string]bool{"not": true, "and": true, "or": true, "=>": true, "ite": true, "=": true,
	"<": true, "<=": true, "+": true, "-": true, "*": true, "div": true, "mod": true, "select": true,
	"store": true, "forall": true, "exists": true, "pat": true, "distinct": true, "abs": true}

func isBuiltinOp(op string) bool { return builtinOps[op] }

func sortedKeys(m map[string]bool) []string {
	ks := make([]string, 0, len(m))
	for k := range m {
		ks = append(ks, k)
	}
	sort.Strings(ks)
	return ks
}
