package main

// Calls: builtins, library models, contracted callees, inlined callees, abstraction.

import (
	"sort"
	"os"
	"fmt"
	"go/token"
	"go/types"
	"strings"

	"golang.org/x/tools/go/ssa"
)

func calleeName(fn *ssa.Function) string {
	// "pkgpath.Name" or "pkgpath.(*T).Name" / "pkgpath.(T).Name"
	if fn.Signature.Recv() != nil {
		rt := fn.Signature.Recv().Type()
		ptr := ""
		if p, ok := rt.(*types.Pointer); ok {
			rt = p.Elem()
			ptr = "*"
		}
		if n, ok := rt.(*types.Named); ok {
			pk := ""
			if n.Obj().Pkg() != nil {
				pk = n.Obj().Pkg().Path() + "."
			}
			return fmt.Sprintf("%s(%s%s).%s", pk, ptr, n.Obj().Name(), fn.Name())
		}
	}
	if fn.Pkg != nil {
		return fn.Pkg.Pkg.Path() + "." + fn.Name()
	}
	return fn.String()
}

func (tr *FnTr) call(x *ssa.Call) {
	cc := x.Common()
	var res Val
	switch {
	case cc.IsInvoke():
		res = tr.invoke(x, cc)
	default:
		switch f := cc.Value.(type) {
		case *ssa.Builtin:
			res = tr.builtin(x, f, cc)
		case *ssa.Function:
			res = tr.staticCall(x, f, cc, nil)
		case *ssa.MakeClosure:
			var free []Val
			for _, b := range f.Bindings {
				free = append(free, tr.val(b))
			}
			res = tr.staticCall(x, f.Fn.(*ssa.Function), cc, free)
		default:
			res = tr.dynamicCall(x, cc)
		}
	}
	if res.T == nil {
		res.T = x.Type()
	}
	res.T = x.Type()
	tr.env[x] = res
}

// dynamicCall: a call through a package-level func variable may have an (assumed)
// contract keyed by the variable's name; anything else is abstracted.
func (tr *FnTr) dynamicCall(x *ssa.Call, cc *ssa.CallCommon) Val {
	if ld, ok := cc.Value.(*ssa.UnOp); ok && ld.Op == token.MUL {
		if g, ok := ld.X.(*ssa.Global); ok && g.Pkg != nil {
			name := g.Pkg.Pkg.Path() + "." + g.Name()
			if ct := tr.eng.contractFor(name); ct != nil {
				sig := cc.Value.Type().Underlying().(*types.Signature)
				ci := &calleeInfo{name: g.Name(), sig: sig, allocs: true, pkg: g.Pkg}
				for i := 0; i < sig.Params().Len(); i++ {
					ci.params = append(ci.params, sig.Params().At(i).Name())
				}
				tr.vc.Assumed = appendUniq(tr.vc.Assumed, "assumed contract of func variable: "+name)
				return tr.contractCallInfo(x, ci, ct, tr.args(cc))
			}
		}
	}
	return tr.abstractCall(x, cc, "dynamic call")
}

func (tr *FnTr) args(cc *ssa.CallCommon) []Val {
	var as []Val
	for _, a := range cc.Args {
		as = append(as, tr.val(a))
	}
	return as
}

func (tr *FnTr) staticCall(x ssa.Value, f *ssa.Function, cc *ssa.CallCommon, free []Val) Val {
	name := calleeName(f)
	args := tr.args(cc)
	if name == "encoding/binary.Write" {
		if v, ok := tr.binaryWrite(x, cc); ok {
			return v
		}
	}
	if name == "encoding/binary.Read" {
		if v, ok := tr.binaryRead(x, cc); ok {
			return v
		}
	}
	if m := libModels[name]; m != nil {
		return m(tr, x, args, cc)
	}
	if tr.top.refute && len(f.Blocks) > 0 && f.Recover == nil && tr.depth < 5 && !tr.top.inlining[f] &&
		f.Pkg != nil && strings.HasPrefix(f.Pkg.Pkg.Path(), modulePath) {
		if ct := tr.eng.contractFor(name); ct == nil || !ct.Assumed {
			if tr.top.inlining == nil {
				tr.top.inlining = map[*ssa.Function]bool{}
			}
			tr.top.inlining[f] = true
			defer delete(tr.top.inlining, f)
			return tr.inline(x, f, args, free, name)
		}
	}
	if ct := tr.eng.contractFor(name); ct != nil && !(tr.depth == 0 && tr.top.ct == ct && false) {
		if ct.Inline {
			return tr.inline(x, f, args, free, name)
		}
		if len(ct.InlineIn) > 0 && tr.top.fn != nil && tr.top.fn.Pkg != nil && len(f.Blocks) > 0 {
			for _, sfx := range ct.InlineIn {
				if strings.HasSuffix(tr.top.fn.Pkg.Pkg.Path(), sfx) {
					return tr.inline(x, f, args, free, name)
				}
			}
		}
		return tr.contractCall(x, f, ct, args)
	}
	if free != nil || tr.eng.autoInline(f) {
		return tr.inline(x, f, args, free, name)
	}
	return tr.abstractCall(x, cc, "call to "+name)
}

// ---------- inlining ----------

func (tr *FnTr) inline(x ssa.Value, f *ssa.Function, args, free []Val, name string) Val {
	if tr.depth > 6 {
		tr.unsupported("inline depth exceeded at %s", name)
	}
	if len(f.Blocks) == 0 {
		return tr.abstractCallVals(x, "call to body-less "+name)
	}
	sub := &FnTr{eng: tr.eng, vc: tr.vc, fn: f, top: tr.top, depth: tr.depth + 1,
		prefix: tr.prefix + "inl." + f.Name() + ".", params: args, free: free, env: map[ssa.Value]Val{}, excMode: tr.excMode}
	sub.ct = tr.eng.contractFor(name) // loop contracts of inlined callee
	sub.run(tr.st)
	if f.Recover != nil {
		tr.unsupported("inlining recovering function %s", name)
	}
	return tr.joinReturns(sub, x)
}

// joinReturns merges the callee's return edges into the caller's current state.
func (tr *FnTr) joinReturns(sub *FnTr, x ssa.Value) Val {
	var live []RetEdge
	for _, r := range sub.rets {
		if !r.St.Reach.IsFalse() {
			live = append(live, r)
		}
	}
	var T types.Type
	if x != nil {
		T = x.Type()
	}
	if len(live) == 0 {
		tr.st.Reach = tFalse
		if T != nil {
			return tr.zeroVal(T)
		}
		return Val{}
	}
	n := len(live)
	st := live[n-1].St
	var res Val
	res = flattenResults(live[n-1].Results, T)
	rs := []*Term{st.Reach}
	for i := n - 2; i >= 0; i-- {
		e := live[i]
		rs = append(rs, e.St.Reach)
		st.Mem = Ite(e.St.Reach, e.St.Mem, st.Mem)
		st.Alloc = Ite(e.St.Reach, e.St.Alloc, st.Alloc)
		st.Locks = Ite(e.St.Reach, e.St.Locks, st.Locks)
		st.Ghost = Ite(e.St.Reach, e.St.Ghost, st.Ghost)
		r := flattenResults(e.Results, T)
		if len(res.L) > 0 {
			res = tr.iteVal(e.St.Reach, r, res)
		}
	}
	st.Reach = tr.vc.Def("reach_ret", Or(rs...))
	st.Mem = tr.vc.Def("mem_ret", st.Mem)
	st.Alloc = tr.vc.Def("alloc_ret", st.Alloc)
	st.Locks = tr.vc.Def("locks_ret", st.Locks)
	st.Ghost = tr.vc.Def("ghost_ret", st.Ghost)
	tr.st = st
	if len(res.L) > 0 {
		res = tr.defVal("ret", res)
	}
	return res
}

func flattenResults(rs []Val, T types.Type) Val {
	v := Val{T: T}
	for _, r := range rs {
		v.L = append(v.L, r.L...)
	}
	return v
}

// ---------- contracted calls ----------

type calleeInfo struct {
	pkg    *ssa.Package
	name   string
	sig    *types.Signature
	params []string
	allocs bool
}

func infoOf(e *Eng, f *ssa.Function) *calleeInfo {
	ci := &calleeInfo{name: f.Name(), sig: f.Signature, pkg: f.Pkg}
	for _, p := range f.Params {
		ci.params = append(ci.params, p.Name())
	}
	_, ci.allocs = e.funcEffects(f)
	return ci
}

func (tr *FnTr) contractCall(x ssa.Value, f *ssa.Function, ct *FuncContract, args []Val) Val {
	return tr.contractCallInfo(x, infoOf(tr.eng, f), ct, args)
}

func (tr *FnTr) contractCallInfo(x ssa.Value, f *calleeInfo, ct *FuncContract, args []Val) Val {
	name := ct.Name
	pre := tr.st
	ctx := tr.calleeCtxInfo(f, args, nil, pre, pre)
	var calleeRec map[string]*SpecFunc
	recInst := map[string]string{}
	if len(ct.RecSpecs) > 0 {
		calleeRec = map[string]*SpecFunc{}
		for _, rs := range ct.RecSpecs {
			calleeRec[rs.Name] = rs
		}
		ctx.calleeRec, ctx.recInst, ctx.recBase = calleeRec, recInst, ctx
	}
	for i, c := range ct.Requires {
		if tr.top.refute {
			break
		}
		g := ctx.goal(c.E)
		if isNilTest(c.E) && tr.top.ct != nil && tr.top.ct.NoNilCheck && !tr.excMode {
			// `x != nil` preconditions are nil checks: not claimed under nonilcheck
			tr.st.Reach = tr.vc.Def("reach", And(tr.st.Reach, g))
			continue
		}
		tr.vc.Oblige(tr.prefix+"pre."+name, labelOr(c.Label, i+1), Implies(tr.st.Reach, g), tr.pos(tr.curInstr.Pos()))
		tr.st.Reach = tr.vc.Def("reach", And(tr.st.Reach, g))
	}
	for i, c := range ct.PanicsIf {
		// the callee panics exactly under this condition: a panic edge of the caller
		tr.panicEdge("callee."+name+"."+labelOr(c.Label, i+1), Not(ctx.cond(c.E, tr.st.Reach)), tr.curInstr.Pos())
	}
	if ct.NoLocks && !tr.top.refute && tr.st.Locks != nil {
		o, j := tr.vc.Fresh("lk_o", SInt), tr.vc.Fresh("lk_j", SInt)
		tr.vc.Oblige(tr.prefix+"pre."+name, "nolocks", Implies(tr.st.Reach, Eq(Select(Select(tr.st.Locks, o), j), Int(0))), tr.pos(tr.curInstr.Pos()))
	}
	// the callee's representation invariant is assumed at its entry: the caller establishes it
	for i, c := range ct.DataInv {
		if tr.top.refute {
			break
		}
		g := ctx.goal(c.E)
		tr.vc.Oblige(tr.prefix+"pre."+name, fmt.Sprintf("datainv%d", i+1), Implies(tr.st.Reach, g), tr.pos(tr.curInstr.Pos()))
		tr.st.Reach = tr.vc.Def("reach", And(tr.st.Reach, g))
	}
	if ct.NoPanicCheck || ct.MayPanic {
		covered := tr.recoverCovers()
		if !covered && !tr.excMode && !(tr.top.ct != nil && tr.top.ct.NoPanicCheck) {
			// the callee's contract does not promise absence of panics
			tr.vc.Oblige(tr.prefix+"nopanic.callee."+name, "", Implies(tr.st.Reach, tFalse), tr.pos(tr.curInstr.Pos()))
		}
		if covered && !tr.excMode && !tr.top.refute {
			tr.top.excLocks = append(tr.top.excLocks, excLock{Reach: tr.st.Reach, Locks: tr.st.Locks})
			tr.noteExcSlots(tr.st.Reach)
		}
	}
	if ct.Assumed {
		tr.vc.Assumed = appendUniq(tr.vc.Assumed, "assumed contract: "+ct.Pkg+"."+name)
	}
	// post-state
	post := State{Reach: tr.st.Reach, Mem: pre.Mem, Alloc: pre.Alloc, Locks: pre.Locks, Ghost: pre.Ghost}
	allocs := f.allocs
	if !ct.Pure {
		var frame []cellRange
		for _, m := range ct.Modifies {
			frame = append(frame, ctx.lvals(m.E)...)
		}
		for _, r := range frame {
			tr.writeCheck(r.Obj, r.Lo, r.Hi)
		}
		if !ct.HasModifies && tr.top.storeChecks {
			tr.vc.Oblige(tr.prefix+"frame.store", "", Implies(tr.st.Reach, tFalse), tr.pos(tr.curInstr.Pos()))
		}
		if tr.top.refute {
			post.Mem = tr.havocAllMem(pre.Mem, "call_"+f.name)
			post.Alloc = tr.vc.Fresh("alloc_call", SInt)
			tr.vc.Assume(Le(pre.Alloc, post.Alloc))
			curEpoch++
		} else if !ct.HasModifies {
			// no frame declared: conservatively havoc everything reachable
			post.Mem = tr.havocAllMem(pre.Mem, "call_"+f.name)
			post.Alloc = tr.vc.Fresh("alloc_call", SInt)
			tr.vc.Assume(Le(pre.Alloc, post.Alloc))
			curEpoch++
			tr.note("call to " + name + " without modifies clause: memory havocked")
		} else {
			if allocs {
				post.Alloc = tr.vc.Fresh("alloc_call", SInt)
				tr.vc.Assume(Le(pre.Alloc, post.Alloc))
			curEpoch++
			}
			post.Mem = tr.havocMem(pre.Mem, pre.Alloc, frame, allocs, "call_"+f.name)
		}
	}
	// ghost byte buffers reachable through the arguments (writers, hashers, *bytes.Buffer)
	// may have been appended to: their content is havocked, their kind is kept
	if !ct.Pure {
		for _, a := range args {
			if a.T == nil || len(a.L) == 0 {
				continue
			}
			if !mayHoldGhost(a.T, 0) {
				continue
			}
			id := a.L[0]
			na := tr.vc.Fresh("g_call", SArr)
			tr.vc.Assume(Le(Int(0), Select(na, Int(-1))))
			post.Ghost = tr.vc.Def("ghost", Store(post.Ghost, id, na))
		}
	}
	// results
	var res Val
	var results []Val
	sig := f.sig
	for i := 0; i < sig.Results().Len(); i++ {
		r := tr.freshVal(fmt.Sprintf("%s_r%d", f.name, i), sig.Results().At(i).Type(), post.Alloc)
		results = append(results, r)
		res.L = append(res.L, r.L...)
	}
	tr.st = post
	pctx := tr.calleeCtxInfo(f, args, results, post, pre)
	if calleeRec != nil {
		pctx.calleeRec, pctx.recInst, pctx.recBase = calleeRec, recInst, ctx
	}
	pctx.guard = post.Reach
	for _, c := range ct.Ensures {
		ft := pctx.fact(c.E)
		if dbg := os.Getenv("GOCV_DEBUG_ENS"); dbg != "" && dbg == name {
			fmt.Fprintf(os.Stderr, "ENS %s @%s: %s\n   mem=%s\n", name, tr.pos(tr.curInstr.Pos()), truncate(ft.String(), 600), truncate(post.Mem.String(), 600))
			for _, a := range args {
				for _, l := range a.L {
					fmt.Fprintf(os.Stderr, "   arg %s\n", truncate(l.String(), 300))
				}
			}
		}
		tr.vc.Assume(Implies(post.Reach, ft))
	}
	// ...and the callee re-establishes it at every exit (obligation datainv.N of the callee)
	for _, c := range ct.DataInv {
		tr.vc.Assume(Implies(post.Reach, pctx.fact(c.E)))
	}
	if !ct.Pure && !ct.HasModifies {
		// memory was havocked: the caller's own representation invariant is assumed to survive
		tr.assumeDataInv()
	}
	return res
}

func appendUniq(xs []string, s string) []string {
	for _, x := range xs {
		if x == s {
			return xs
		}
	}
	return append(xs, s)
}

// ---------- abstraction ----------

func (tr *FnTr) abstractCall(x ssa.Value, cc *ssa.CallCommon, why string) Val {
	return tr.abstractCallVals(x, why)
}

func (tr *FnTr) abstractCallVals(x ssa.Value, why string) Val {
	tr.note(why + " (abstracted: results unconstrained, reachable heap havocked)")
	tr.havocAll(why)
	if x == nil {
		return Val{}
	}
	return tr.freshVal(tr.vname(x), x.Type(), tr.st.Alloc)
}

// havocAll forgets everything about memory except the function's private local objects.
func (tr *FnTr) havocAll(why string) {
	if tr.top.storeChecks {
		tr.vc.Oblige(tr.prefix+"frame.store", "", Implies(tr.st.Reach, tFalse), "")
	}
	tr.st.Mem = tr.havocAllMem(tr.st.Mem, "abs")
	na := tr.vc.Fresh("alloc_abs", SInt)
	tr.vc.Assume(Le(tr.st.Alloc, na))
	tr.st.Alloc = na
	curEpoch++
	tr.assumeDataInv()
}

// assumeDataInv: the representation invariant of the function under verification is
// assumed to survive every abstracted call (listed as an assumption in the evidence).
func (tr *FnTr) assumeDataInv() {
	tr.assumeGlobals()
	top := tr.top
	if top.ct == nil || len(top.ct.DataInv) == 0 || top.fn == nil {
		return
	}
	ctx := top.calleeCtx(top.fn, top.params, nil, tr.st, top.entry)
	ctx.guard = tr.st.Reach
	for _, c := range top.ct.DataInv {
		tr.vc.Assume(Implies(tr.st.Reach, ctx.fact(c.E)))
	}
	tr.vc.Assumed = appendUniq(tr.vc.Assumed, "representation invariant (datainv) of "+top.ct.Name+" assumed preserved by abstracted calls")
}

func (tr *FnTr) havocAllMem(m *Term, tag string) *Term {
	nm := tr.vc.Fresh("mem_"+tag, SMem)
	var out *Term = nm
	priv := tr.allPrivObjs()
	if tr.top.refute {
		for _, p := range tr.top.params {
			for i, lf := range layoutOf(p.T).Leaves {
				if lf.K == LObj && !lf.Str {
					priv = append(priv, p.L[i])
				}
			}
		}
	}
	for _, o := range priv {
		out = Store(out, o, SelectDeep(m, o))
	}
	return tr.vc.Def("mem_"+tag+"_p", out)
}

func (tr *FnTr) allPrivObjs() []*Term {
	// private objects of this frame and of all callers up the inline chain share tr.top
	return tr.top.privObjsAll()
}

func (tr *FnTr) privObjsAll() []*Term {
	var out []*Term
	seen := map[string]bool{}
	for _, o := range tr.privObjs {
		if k := o.Key(); !seen[k] && tr.idAllPrivate(o) {
			seen[k] = true
			out = append(out, o)
		}
	}
	return out
}

// computePrivate finds Allocs whose address never escapes to abstracted code.
func (tr *FnTr) computePrivate() {
	tr.private = map[*ssa.Alloc]bool{}
	for _, b := range tr.fn.Blocks {
		for _, in := range b.Instrs {
			if a, ok := in.(*ssa.Alloc); ok {
				if tr.addrPrivate(a, map[ssa.Value]bool{}) {
					tr.private[a] = true
				}
			}
		}
	}
}

func (tr *FnTr) addrPrivate(v ssa.Value, seen map[ssa.Value]bool) bool {
	if seen[v] {
		return true
	}
	seen[v] = true
	refs := v.Referrers()
	if refs == nil {
		return false
	}
	for _, r := range *refs {
		switch u := r.(type) {
		case *ssa.DebugRef:
		case *ssa.UnOp:
			if u.Op != token.MUL {
				return false
			}
		case *ssa.Store:
			if u.Val == v {
				return false
			}
		case *ssa.FieldAddr:
			if !tr.addrPrivate(u, seen) {
				return false
			}
		case *ssa.IndexAddr:
			if !tr.addrPrivate(u, seen) {
				return false
			}
		case *ssa.Slice:
			if !tr.addrPrivate(u, seen) {
				return false
			}
		case *ssa.Call:
			cc := u.Common()
			if cc.IsInvoke() {
				// models of hash.Hash / io.Writer methods do not retain their arguments
				if !invokeModelled(cc) {
					return false
				}
				continue
			}
			switch f := cc.Value.(type) {
			case *ssa.Builtin:
				switch f.Name() {
				case "len", "cap", "copy", "print", "println":
				case "append":
					// appended-from slice is only read; appended-to may be returned
					if len(cc.Args) > 0 && cc.Args[0] == v {
						if !tr.addrPrivate(u, seen) {
							return false
						}
					}
				default:
					return false
				}
			case *ssa.Function:
				n := calleeName(f)
				if libModels[n] == nil && tr.eng.contractFor(n) == nil && !tr.eng.autoInline(f) {
					return false
				}
			default:
				return false
			}
		case *ssa.MakeClosure:
			// only closures that are deferred (and therefore inlined by us) keep it private
			ok := true
			if rr := u.Referrers(); rr != nil {
				for _, q := range *rr {
					if _, isDefer := q.(*ssa.Defer); !isDefer {
						ok = false
					}
				}
			}
			if !ok {
				return false
			}
		default:
			return false
		}
	}
	return true
}

// callEffects: may the call write pre-existing memory / allocate?
func (tr *FnTr) callEffects(cc *ssa.CallCommon) (writes, allocs bool) {
	if cc.IsInvoke() {
		return true, true
	}
	switch f := cc.Value.(type) {
	case *ssa.Builtin:
		switch f.Name() {
		case "len", "cap", "print", "println", "min", "max", "real", "imag":
			return false, false
		case "copy":
			return true, false
		}
		return true, true
	case *ssa.Function:
		return tr.eng.funcEffects(f)
	}
	return true, true
}

// ---------- builtins ----------

func (tr *FnTr) builtin(x *ssa.Call, f *ssa.Builtin, cc *ssa.CallCommon) Val {
	args := tr.args(cc)
	switch f.Name() {
	case "len":
		a := args[0]
		switch t := a.T.Underlying().(type) {
		case *types.Slice, *types.Basic:
			return Val{L: []*Term{a.L[2]}}
		case *types.Array:
			return Val{L: []*Term{Int(t.Len())}}
		case *types.Pointer:
			return Val{L: []*Term{Int(t.Elem().Underlying().(*types.Array).Len())}}
		default:
			tr.note("len of map/chan")
			v := tr.freshVal("len", x.Type(), nil)
			tr.vc.Assume(Ge(v.L[0], Int(0)))
			return v
		}
	case "cap":
		a := args[0]
		switch t := a.T.Underlying().(type) {
		case *types.Slice:
			return Val{L: []*Term{a.L[3]}}
		case *types.Array:
			return Val{L: []*Term{Int(t.Len())}}
		case *types.Pointer:
			return Val{L: []*Term{Int(t.Elem().Underlying().(*types.Array).Len())}}
		}
		v := tr.freshVal("cap", x.Type(), nil)
		tr.vc.Assume(Ge(v.L[0], Int(0)))
		return v
	case "print", "println":
		return Val{}
	case "copy":
		return tr.builtinCopy(args[0], args[1])
	case "append":
		return tr.builtinAppend(x, args)
	case "recover":
		if tr.excMode {
			t := tr.vc.Fresh("recovered", SInt)
			tr.vc.Assume(Lt(Int(0), t))
			return Val{L: []*Term{t}}
		}
		return Val{L: []*Term{Int(0)}}
	case "min", "max":
		r := args[0].L[0]
		for _, a := range args[1:] {
			if f.Name() == "min" {
				r = Ite(Lt(a.L[0], r), a.L[0], r)
			} else {
				r = Ite(Gt(a.L[0], r), a.L[0], r)
			}
		}
		return Val{L: []*Term{r}}
	case "delete", "close", "clear":
		tr.note("builtin " + f.Name())
		return Val{}
	}
	return tr.abstractCall(x, cc, "builtin "+f.Name())
}

// copy(dst, src): cells of the first n elements; src is a slice or a string.
func (tr *FnTr) builtinCopy(dst, src Val) Val {
	es := sizeOf(dst.T.Underlying().(*types.Slice).Elem())
	dl := dst.L[2]
	var sl, sobj, soff *Term
	var srcArr *Term
	if isString(src.T) {
		sl, sobj, soff = src.L[2], src.L[0], src.L[1]
		srcArr = Select(tr.eng.strMem(), sobj)
	} else {
		sl, sobj, soff = src.L[2], src.L[0], src.L[1]
		srcArr = Select(tr.st.Mem, sobj)
	}
	n := tr.vc.Def("copy_n", Ite(Lt(dl, sl), dl, sl))
	tr.copyCellsT(dst.L[0], dst.L[1], srcArr, soff, Mul(n, Int(int64(es))), elemTagOf(dst.T))
	return Val{L: []*Term{n}}
}

// copyCells writes cnt cells from srcArr[soff..] into object dobj at doff.
// elemTagOf: the cell type of the elements of a slice of single-cell basic elements ("" otherwise)
func elemTagOf(T types.Type) string {
	sl, ok := T.Underlying().(*types.Slice)
	if !ok {
		return ""
	}
	if lay := layoutOf(sl.Elem()); lay.N() == 1 && (lay.Leaves[0].K == LInt || lay.Leaves[0].K == LBool) {
		return leafTag(lay.Leaves[0])
	}
	return ""
}

func (tr *FnTr) copyCells(dobj, doff, srcArr, soff, cnt *Term) { tr.copyCellsT(dobj, doff, srcArr, soff, cnt, "") }

// copyCellsT: etag is the cell type of every cell written (if known): reads of other cell
// types skip the copy.
func (tr *FnTr) copyCellsT(dobj, doff, srcArr, soff, cnt *Term, etag string) {
	tr.writeCheck(dobj, doff, Add(doff, cnt))
	old := Select(tr.st.Mem, dobj)
	if c := cnt.IntConst(); c != nil && c.IsInt64() && c.Int64() <= 80 {
		a := old
		src := tr.vc.Def("copy_src", srcArr)
		for k := int64(0); k < c.Int64(); k++ {
			a = Store(a, Add(doff, Int(k)), Select(src, Add(soff, Int(k))))
			if etag != "" {
				a.Name = etag
			}
		}
		tr.st.Mem = tr.vc.Def("mem", Store(tr.st.Mem, dobj, a))
		return
	}
	if mx, ok := upperBound(cnt); ok && mx <= 32 && !tr.top.refute {
		// symbolic count with a small static bound (copy into a fixed-size array): conditional
		// stores, no quantifier
		a := old
		src := tr.vc.Def("copy_src", srcArr)
		oldD := tr.vc.Def("copy_old", old)
		for k := int64(0); k < mx; k++ {
			a = Store(a, Add(doff, Int(k)), Ite(Lt(Int(k), cnt), Select(src, Add(soff, Int(k))), Select(oldD, Add(doff, Int(k)))))
			if etag != "" {
				a.Name = etag
			}
		}
		tr.st.Mem = tr.vc.Def("mem", Store(tr.st.Mem, dobj, a))
		return
	}
	if tr.top.refute {
		bound := tr.top.copyBound
		if bound == 0 {
			bound = 8
		}
		tr.st.Reach = tr.vc.Def("reach", And(tr.st.Reach, Le(cnt, Int(bound))))
		a := old
		src := tr.vc.Def("copy_src", srcArr)
		for k := int64(0); k < bound; k++ {
			a = Store(a, Add(doff, Int(k)), Ite(Lt(Int(k), cnt), Select(src, Add(soff, Int(k))), Select(old, Add(doff, Int(k)))))
		}
		tr.st.Mem = tr.vc.Def("mem", Store(tr.st.Mem, dobj, a))
		return
	}
	na := tr.vc.Fresh("copy_arr", SArr)
	src := tr.vc.Def("copy_src", srcArr)
	oldD := tr.vc.Def("copy_old", old)
	j := Sym("j!q", SInt)
	in := And(Le(doff, j), Lt(j, Add(doff, cnt)))
	tr.vc.Assume(Forall([]*Term{j}, Eq(Select(na, j), Ite(in, Select(src, Add(soff, Sub(j, doff))), Select(oldD, j))), Select(na, j)))
	if etag != "" {
		st := mk("store", SMem, tr.st.Mem, dobj, na)
		st.Name = "hv:" + etag
		tr.st.Mem = tr.vc.Def("mem", st)
		return
	}
	tr.st.Mem = tr.vc.Def("mem", Store(tr.st.Mem, dobj, na))
}

func (tr *FnTr) builtinAppend(x *ssa.Call, args []Val) Val {
	s := args[0]
	es := sizeOf(s.T.Underlying().(*types.Slice).Elem())
	var addLen, aobj, aoff *Term
	var srcArr *Term
	if len(args) < 2 {
		return s
	}
	a := args[1]
	if isString(a.T) {
		addLen, aobj, aoff = a.L[2], a.L[0], a.L[1]
		srcArr = Select(tr.eng.strMem(), aobj)
	} else {
		addLen, aobj, aoff = a.L[2], a.L[0], a.L[1]
		srcArr = Select(tr.st.Mem, aobj)
	}
	srcArr = tr.vc.Def("app_src", srcArr)
	newLen := tr.vc.Def("app_len", Add(s.L[2], addLen))
	fits := tr.vc.Def("app_fits", Le(newLen, s.L[3]))
	pre := tr.st
	// case 1: in place
	tr.copyCellsT(s.L[0], Add(s.L[1], Mul(s.L[2], Int(int64(es)))), srcArr, aoff, Mul(addLen, Int(int64(es))), elemTagOf(s.T))
	memFit := tr.st.Mem
	// case 2: new object with the old prefix copied
	tr.st = pre
	obj := tr.newObject("app")
	ncap := tr.vc.Fresh("app_cap", SInt)
	tr.vc.Assume(And(Le(newLen, ncap), Le(ncap, maxLen)))
	tr.copyCells(obj, Int(0), tr.vc.Def("app_old", Select(pre.Mem, s.L[0])), s.L[1], Mul(s.L[2], Int(int64(es))))
	tr.copyCells(obj, Mul(s.L[2], Int(int64(es))), srcArr, aoff, Mul(addLen, Int(int64(es))))
	memNew, allocNew := tr.st.Mem, tr.st.Alloc
	tr.st.Mem = tr.vc.Def("mem", Ite(fits, memFit, memNew))
	tr.st.Alloc = tr.vc.Def("alloc", Ite(fits, pre.Alloc, allocNew))
	tr.check("append", Le(newLen, maxLen), x.Pos())
	return tr.defVal(tr.vname(x), Val{T: x.Type(), L: []*Term{
		Ite(fits, s.L[0], obj), Ite(fits, s.L[1], Int(0)), newLen, Ite(fits, s.L[3], ncap)}})
}

// ---------- defers ----------

func (tr *FnTr) runDefers(exc bool) {
	for i := len(tr.defers) - 1; i >= 0; i-- {
		d := tr.defers[i]
		// A deferred call runs only if its defer statement was executed. That is certain when
		// the statement dominates this exit (or, at the exceptional exit, when it is one of
		// the recovering defers that cover the panic); otherwise the call runs under the
		// reachability predicate of the defer statement (unknown at the exceptional exit).
		uncond := false
		if exc {
			for _, rd := range tr.top.recDefers {
				if rd == d.call {
					uncond = true
				}
			}
		} else if tr.curInstr != nil && tr.curInstr.Block() != nil && d.call.Block() != nil {
			cb := tr.curInstr.Block()
			uncond = d.call.Block() == cb || d.call.Block().Dominates(cb)
		} else {
			uncond = true
		}
		if uncond {
			tr.runDefer(d, exc)
			continue
		}
		cond := d.reach
		if exc {
			cond = tr.vc.Fresh("defer_registered", SBool)
		}
		st0 := tr.st
		tr.st.Reach = tr.vc.Def("reach", And(st0.Reach, cond))
		tr.runDefer(d, exc)
		st1 := tr.st
		tr.st = State{
			Reach: tr.vc.Def("reach", Or(And(st0.Reach, Not(cond)), st1.Reach)),
			Mem:   tr.vc.Def("mem", Ite(cond, st1.Mem, st0.Mem)),
			Alloc: tr.vc.Def("alloc", Ite(cond, st1.Alloc, st0.Alloc)),
		}
		if st0.Locks != nil && st1.Locks != nil {
			tr.st.Locks = Ite(cond, st1.Locks, st0.Locks)
		} else {
			tr.st.Locks = st0.Locks
		}
		if st0.Ghost != nil && st1.Ghost != nil {
			tr.st.Ghost = Ite(cond, st1.Ghost, st0.Ghost)
		} else {
			tr.st.Ghost = st0.Ghost
		}
	}
}

func (tr *FnTr) runDefer(d deferred, exc bool) {
	{
		cc := &d.call.Call
		switch f := cc.Value.(type) {
		case *ssa.MakeClosure:
			var free []Val
			for _, b := range f.Bindings {
				free = append(free, tr.val(b))
			}
			fn := f.Fn.(*ssa.Function)
			sub := &FnTr{eng: tr.eng, vc: tr.vc, fn: fn, top: tr.top, depth: tr.depth + 1,
				prefix: tr.prefix + "defer.", free: free, env: map[ssa.Value]Val{}, excMode: exc}
			for _, a := range cc.Args {
				sub.params = append(sub.params, tr.val(a))
			}
			sub.run(tr.st)
			tr.joinReturns(sub, nil)
		case *ssa.Function:
			if cc.IsInvoke() {
				tr.abstractCallVals(nil, "deferred invoke")
				return
			}
			name := calleeName(f)
			var args []Val
			for _, a := range cc.Args {
				args = append(args, tr.val(a))
			}
			if m := libModels[name]; m != nil {
				m(tr, nil, args, cc)
				return
			}
			if ct := tr.eng.contractFor(name); ct != nil && !ct.Inline {
				tr.contractCall(nil, f, ct, args)
				return
			}
			if tr.eng.autoInline(f) || tr.eng.contractFor(name) != nil {
				tr.inline(nil, f, args, nil, name)
				return
			}
			tr.abstractCallVals(nil, "deferred call to "+name)
		default:
			tr.abstractCallVals(nil, "deferred dynamic call")
		}
	}
}

// hasRecover reports whether fn defers a closure that calls recover().
func hasRecover(fn *ssa.Function) bool { return len(recoverDefers(fn)) > 0 }

// recoverDefers lists the defer statements of fn whose closure calls recover().
func recoverDefers(fn *ssa.Function) []*ssa.Defer {
	var out []*ssa.Defer
	for _, b := range fn.Blocks {
		for _, in := range b.Instrs {
			d, ok := in.(*ssa.Defer)
			if !ok {
				continue
			}
			var cf *ssa.Function
			switch v := d.Call.Value.(type) {
			case *ssa.MakeClosure:
				cf = v.Fn.(*ssa.Function)
			case *ssa.Function:
				cf = v
			}
			if cf == nil {
				continue
			}
			found := false
			for _, cb := range cf.Blocks {
				for _, ci := range cb.Instrs {
					if c, ok := ci.(*ssa.Call); ok {
						if bi, ok := c.Call.Value.(*ssa.Builtin); ok && bi.Name() == "recover" {
							found = true
						}
					}
				}
			}
			if found {
				out = append(out, d)
			}
		}
	}
	return out
}

// ---------- interface method calls ----------

func invokeModelled(cc *ssa.CallCommon) bool {
	recvT := cc.Value.Type().String()
	if strings.Contains(recvT, "hash.Hash") || strings.Contains(recvT, "io.Writer") {
		switch cc.Method.Name() {
		case "Write", "WriteByte", "Sum", "Reset", "Size", "BlockSize":
			return true
		}
	}
	return false
}

func (tr *FnTr) invoke(x *ssa.Call, cc *ssa.CallCommon) Val {
	if v, ok := tr.ghostInvoke(x, cc); ok {
		return v
	}
	if v, ok := tr.readerInvoke(x, cc); ok {
		return v
	}
	name := cc.Method.Name()
	recvT := cc.Value.Type().String()
	_ = recvT
	if name == "Error" || name == "String" {
		// pure by convention
		tr.note("interface method " + name + " (result unconstrained)")
		return tr.freshVal(tr.vname(x), x.Type(), nil)
	}
	return tr.abstractCall(x, cc, "interface method "+strings.TrimSpace(name))
}

// assumeGlobals: package-level invariants declared with `global` (e.g. "the curve constants
// are initialised") are assumed in every state: at entry and after every abstracted call.
func (tr *FnTr) assumeGlobals() {
	eng := tr.eng
	// package variables declared immutable hold in every state what they held at entry
	if len(eng.immutables) > 0 && tr.top.entry.Mem != nil && tr.st.Mem != tr.top.entry.Mem {
		for _, g := range tr.top.globalList {
			if g.Pkg == nil || !eng.immutables[g.Pkg.Pkg.Path()+"."+g.Name()] {
				continue
			}
			id := Int(eng.globalID(g))
			n := sizeOf(g.Type().Underlying().(*types.Pointer).Elem())
			var cs []*Term
			for k := 0; k < n && k < 16; k++ {
				cs = append(cs, Eq(Select(Select(tr.st.Mem, id), Int(int64(k))), Select(Select(tr.top.entry.Mem, id), Int(int64(k)))))
			}
			tr.vc.Assume(Implies(tr.st.Reach, And(cs...)))
			tr.vc.Assumed = appendUniq(tr.vc.Assumed, "package variable assumed immutable after initialisation: "+shortPkg(g.Pkg.Pkg.Path())+"."+g.Name())
		}
	}
	for _, g := range eng.globals_ {
		sp := eng.pkgs[g.Pkg]
		if sp == nil {
			continue
		}
		// an invariant about a package's variables concerns only code that can see the package
		if tr.top.fn != nil && tr.top.fn.Pkg != nil && !pkgSees(tr.top.fn.Pkg.Pkg, g.Pkg) {
			continue
		}
		// a quantified invariant (the content of a table) is assumed only where the code
		// reads one of the variables it is about: elsewhere it only slows the solvers down
		if exprHasQuant(g.C.E) && tr.top.fn != nil && !tr.top.usesGlobalOf(g.Pkg, exprIds(g.C.E, nil)) {
			continue
		}
		ctx := &SpecCtx{tr: tr, st: tr.st, old: tr.top.entry, pkg: sp}
		tr.vc.Assume(Implies(tr.st.Reach, ctx.fact(g.C.E)))
		tr.vc.Assumed = appendUniq(tr.vc.Assumed, "global invariant assumed ("+shortPkg(g.Pkg)+"): "+g.C.Src)
	}
}

// isNilTest recognises the precondition shape `name != nil`.
func isNilTest(e *Expr) bool {
	if e == nil || e.Op != "bin" || e.Name != "!=" || len(e.Args) != 2 {
		return false
	}
	a, b := e.Args[0], e.Args[1]
	return (a.Op == "id" && b.Op == "id" && b.Name == "nil") || (b.Op == "id" && a.Op == "id" && a.Name == "nil")
}

// mayHoldGhost: does a value of this type name a ghost byte buffer (writer, hasher, buffer,
// reader) by its own object id? Interfaces (io.Writer, hash.Hash, ...), pointers to the
// library types themselves, and pointers to structs that embed such a type by value. Buffers
// reachable only through pointer fields of an argument are not tracked (stated assumption:
// callees under contract do not write to them behind the caller's back).
func mayHoldGhost(T types.Type, depth int) bool {
	if depth > 4 {
		return true
	}
	if isGhostLibType(T) {
		return true
	}
	switch t := T.Underlying().(type) {
	case *types.Interface:
		return true
	case *types.Pointer:
		if depth == 0 {
			return mayHoldGhost(t.Elem(), depth+1)
		}
		return false
	case *types.Struct:
		for i := 0; i < t.NumFields(); i++ {
			ft := t.Field(i).Type()
			if isGhostLibType(ft) {
				return true
			}
			if _, ok := ft.Underlying().(*types.Struct); ok && mayHoldGhost(ft, depth+1) {
				return true
			}
		}
	}
	return false
}

func isGhostLibType(T types.Type) bool {
	nt, ok := T.(*types.Named)
	if !ok || nt.Obj().Pkg() == nil {
		return false
	}
	p := nt.Obj().Pkg().Path()
	return p == "bytes" || p == "bufio" || p == "hash" || strings.HasPrefix(p, "crypto/") || strings.HasSuffix(p, "/ripemd160")
}

var pkgSeesMemo = map[string]bool{}

// pkgSees: is the package with this path p itself or among its transitive imports?
func pkgSees(p *types.Package, path string) bool {
	if p == nil {
		return true
	}
	key := p.Path() + " -> " + path
	if v, ok := pkgSeesMemo[key]; ok {
		return v
	}
	seen := map[*types.Package]bool{}
	var walk func(q *types.Package) bool
	walk = func(q *types.Package) bool {
		if q.Path() == path {
			return true
		}
		if seen[q] {
			return false
		}
		seen[q] = true
		for _, im := range q.Imports() {
			if walk(im) {
				return true
			}
		}
		return false
	}
	r := walk(p)
	pkgSeesMemo[key] = r
	return r
}

func exprHasQuant(e *Expr) bool {
	if e == nil {
		return false
	}
	if e.Op == "forall" || e.Op == "exists" {
		return true
	}
	for _, a := range e.Args {
		if exprHasQuant(a) {
			return true
		}
	}
	return false
}

func exprIds(e *Expr, acc map[string]bool) map[string]bool {
	if acc == nil {
		acc = map[string]bool{}
	}
	if e == nil {
		return acc
	}
	if e.Op == "id" {
		acc[e.Name] = true
	}
	for _, a := range e.Args {
		exprIds(a, acc)
	}
	return acc
}

// usesGlobalOf: does the function (or a function inlined into it) mention a package-level
// variable of package path whose name is in names?
func (top *FnTr) usesGlobalOf(path string, names map[string]bool) bool {
	key := path + "|"
	var ns []string
	for n := range names {
		ns = append(ns, n)
	}
	sort.Strings(ns)
	key += strings.Join(ns, ",")
	if top.usesMemo == nil {
		top.usesMemo = map[string]bool{}
	}
	if v, ok := top.usesMemo[key]; ok {
		return v
	}
	seen := map[*ssa.Function]bool{}
	var scan func(f *ssa.Function, depth int) bool
	scan = func(f *ssa.Function, depth int) bool {
		if f == nil || seen[f] || depth > 4 {
			return false
		}
		seen[f] = true
		for _, b := range f.Blocks {
			for _, in := range b.Instrs {
				var ops [12]*ssa.Value
				for _, op := range in.Operands(ops[:0]) {
					if op == nil || *op == nil {
						continue
					}
					if g, ok := (*op).(*ssa.Global); ok && g.Pkg != nil && g.Pkg.Pkg.Path() == path && names[g.Name()] {
						return true
					}
				}
				if c, ok := in.(ssa.CallInstruction); ok {
					if cal := c.Common().StaticCallee(); cal != nil {
						ct := top.eng.contractFor(calleeName(cal))
						if (ct != nil && ct.Inline) || (ct == nil && top.eng.autoInline(cal)) {
							if scan(cal, depth+1) {
								return true
							}
						}
					}
				}
			}
		}
		for _, af := range f.AnonFuncs {
			if scan(af, depth+1) {
				return true
			}
		}
		return false
	}
	r := scan(top.fn, 0)
	top.usesMemo[key] = r
	return r
}
