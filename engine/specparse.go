package main

// Contract files: comment-only Go files (build tag verif) whose `//@` lines carry the
// contracts. This file holds the line-level parser and the expression parser.

import (
	"fmt"
	"math/big"
	"os"
	"regexp"
	"strconv"
	"strings"
	"unicode"
)

// ---------- expression AST ----------

type Expr struct {
	Op   string // "num","id","str","call","spec","index","slice","field","un","bin","forall","exists","old"
	Name string // identifier / operator / field / function name
	Num  *big.Int
	Args []*Expr
	Vars []string // quantifier variables
	Pos  string
}

func (e *Expr) String() string {
	switch e.Op {
	case "num":
		return e.Num.String()
	case "id":
		return e.Name
	case "str":
		return strconv.Quote(e.Name)
	case "call":
		return e.Name + "(" + joinExprs(e.Args) + ")"
	case "spec":
		return "@" + e.Name + "(" + joinExprs(e.Args) + ")"
	case "index":
		return e.Args[0].String() + "[" + e.Args[1].String() + "]"
	case "slice":
		s := e.Args[0].String() + "["
		if e.Args[1] != nil {
			s += e.Args[1].String()
		}
		s += ":"
		if e.Args[2] != nil {
			s += e.Args[2].String()
		}
		return s + "]"
	case "field":
		return e.Args[0].String() + "." + e.Name
	case "un":
		return e.Name + e.Args[0].String()
	case "bin":
		return "(" + e.Args[0].String() + " " + e.Name + " " + e.Args[1].String() + ")"
	case "forall", "exists":
		s := e.Op + " " + strings.Join(e.Vars, ",")
		if e.Args[0] != nil {
			s += " in " + e.Args[0].String() + ".." + e.Args[1].String()
		}
		return s + " : " + e.Args[2].String()
	case "old":
		return "old(" + e.Args[0].String() + ")"
	}
	return "?"
}

func joinExprs(es []*Expr) string {
	ss := make([]string, len(es))
	for i, e := range es {
		ss[i] = e.String()
	}
	return strings.Join(ss, ", ")
}

// ---------- lexer ----------

type tok struct {
	k string // "num","id","str","op","eof"
	s string
	n *big.Int
}

func lex(src string) ([]tok, error) {
	var out []tok
	i := 0
	for i < len(src) {
		c := src[i]
		switch {
		case c == ' ' || c == '\t' || c == '\n':
			i++
		case c >= '0' && c <= '9':
			j := i
			if c == '0' && i+1 < len(src) && (src[i+1] == 'x' || src[i+1] == 'X') {
				j = i + 2
				for j < len(src) && (isHex(src[j]) || src[j] == '_') {
					j++
				}
			} else {
				for j < len(src) && (src[j] >= '0' && src[j] <= '9' || src[j] == '_') {
					j++
				}
			}
			n, ok := new(big.Int).SetString(strings.ReplaceAll(src[i:j], "_", ""), 0)
			if !ok {
				return nil, fmt.Errorf("bad number %q", src[i:j])
			}
			out = append(out, tok{k: "num", s: src[i:j], n: n})
			i = j
		case c == '_' || unicode.IsLetter(rune(c)):
			j := i
			for j < len(src) && (src[j] == '_' || unicode.IsLetter(rune(src[j])) || unicode.IsDigit(rune(src[j]))) {
				j++
			}
			out = append(out, tok{k: "id", s: src[i:j]})
			i = j
		case c == '"':
			j := i + 1
			for j < len(src) && src[j] != '"' {
				if src[j] == '\\' {
					j++
				}
				j++
			}
			s, err := strconv.Unquote(src[i : j+1])
			if err != nil {
				return nil, err
			}
			out = append(out, tok{k: "str", s: s})
			i = j + 1
		case c == '\'':
			j := i + 1
			for j < len(src) && src[j] != '\'' {
				if src[j] == '\\' {
					j++
				}
				j++
			}
			r, _, _, err := strconv.UnquoteChar(src[i+1:j], '\'')
			if err != nil {
				return nil, err
			}
			out = append(out, tok{k: "num", s: src[i : j+1], n: big.NewInt(int64(r))})
			i = j + 1
		default:
			ops := []string{"<==>", "==>", "&&", "||", "==", "!=", "<=", ">=", "<<", ">>", "&^", "**", "..",
				"+", "-", "*", "/", "%", "&", "|", "^", "<", ">", "!", "(", ")", "[", "]", ",", ":", ".", "@", "#"}
			matched := false
			for _, op := range ops {
				if strings.HasPrefix(src[i:], op) {
					out = append(out, tok{k: "op", s: op})
					i += len(op)
					matched = true
					break
				}
			}
			if !matched {
				return nil, fmt.Errorf("unexpected character %q in %q", c, src)
			}
		}
	}
	out = append(out, tok{k: "eof"})
	return out, nil
}

func isHex(c byte) bool {
	return c >= '0' && c <= '9' || c >= 'a' && c <= 'f' || c >= 'A' && c <= 'F'
}

// ---------- parser ----------

type parser struct {
	toks []tok
	p    int
	pos  string
}

func parseExpr(src, pos string) (e *Expr, err error) {
	toks, err := lex(src)
	if err != nil {
		return nil, fmt.Errorf("%s: %v", pos, err)
	}
	ps := &parser{toks: toks, pos: pos}
	defer func() {
		if r := recover(); r != nil {
			if s, ok := r.(parseErr); ok {
				err = fmt.Errorf("%s: %s in %q", pos, string(s), src)
				return
			}
			panic(r)
		}
	}()
	e = ps.expr(0)
	if ps.peek().k != "eof" {
		ps.fail("trailing input at " + ps.peek().s)
	}
	return e, nil
}

type parseErr string

func (ps *parser) fail(m string) { panic(parseErr(m)) }
func (ps *parser) peek() tok     { return ps.toks[ps.p] }
func (ps *parser) next() tok     { t := ps.toks[ps.p]; ps.p++; return t }
func (ps *parser) isOp(s string) bool {
	t := ps.peek()
	return t.k == "op" && t.s == s
}
func (ps *parser) expect(s string) {
	if !ps.isOp(s) {
		ps.fail("expected " + s + " got " + ps.peek().s)
	}
	ps.p++
}

var binPrec = map[string]int{
	"<==>": 1, "==>": 2, "||": 3, "&&": 4,
	"==": 5, "!=": 5, "<": 5, "<=": 5, ">": 5, ">=": 5,
	"+": 6, "-": 6, "|": 6, "^": 6,
	"*": 7, "/": 7, "%": 7, "<<": 7, ">>": 7, "&": 7, "&^": 7,
	"**": 8,
}

func (ps *parser) expr(minPrec int) *Expr {
	t := ps.peek()
	if t.k == "id" && (t.s == "forall" || t.s == "exists") {
		return ps.quant()
	}
	lhs := ps.unary()
	for {
		t := ps.peek()
		if t.k != "op" {
			break
		}
		pr, ok := binPrec[t.s]
		if !ok || pr < minPrec {
			break
		}
		ps.p++
		var rhs *Expr
		if t.s == "==>" || t.s == "**" || t.s == "<==>" {
			rhs = ps.expr(pr) // right assoc
		} else {
			rhs = ps.expr(pr + 1)
		}
		lhs = &Expr{Op: "bin", Name: t.s, Args: []*Expr{lhs, rhs}, Pos: ps.pos}
	}
	return lhs
}

func (ps *parser) quant() *Expr {
	q := ps.next().s
	var vars []string
	for {
		t := ps.next()
		if t.k != "id" {
			ps.fail("quantifier variable expected")
		}
		vars = append(vars, t.s)
		if ps.isOp(",") {
			ps.p++
			continue
		}
		break
	}
	var lo, hi *Expr
	if t := ps.peek(); t.k == "id" && t.s == "in" {
		ps.p++
		lo = ps.expr(6)
		ps.expect("..")
		hi = ps.expr(6)
	}
	ps.expect(":")
	body := ps.expr(0)
	return &Expr{Op: q, Vars: vars, Args: []*Expr{lo, hi, body}, Pos: ps.pos}
}

func (ps *parser) unary() *Expr {
	t := ps.peek()
	if t.k == "op" {
		switch t.s {
		case "-", "!", "#", "*", "&":
			ps.p++
			x := ps.unary()
			return &Expr{Op: "un", Name: t.s, Args: []*Expr{x}, Pos: ps.pos}
		}
	}
	return ps.postfix(ps.primary())
}

func (ps *parser) primary() *Expr {
	t := ps.next()
	switch t.k {
	case "num":
		return &Expr{Op: "num", Num: t.n, Pos: ps.pos}
	case "str":
		return &Expr{Op: "str", Name: t.s, Pos: ps.pos}
	case "id":
		if t.s == "old" && ps.isOp("(") {
			ps.p++
			x := ps.expr(0)
			ps.expect(")")
			return &Expr{Op: "old", Args: []*Expr{x}, Pos: ps.pos}
		}
		if t.s == "true" || t.s == "false" || t.s == "nil" {
			return &Expr{Op: "id", Name: t.s, Pos: ps.pos}
		}
		if ps.isOp("(") {
			ps.p++
			args := ps.args()
			return &Expr{Op: "call", Name: t.s, Args: args, Pos: ps.pos}
		}
		return &Expr{Op: "id", Name: t.s, Pos: ps.pos}
	case "op":
		switch t.s {
		case "(":
			x := ps.expr(0)
			ps.expect(")")
			return x
		case "@":
			n := ps.next()
			if n.k != "id" {
				ps.fail("spec function name expected")
			}
			var args []*Expr
			if ps.isOp("(") {
				ps.p++
				args = ps.args()
			}
			return &Expr{Op: "spec", Name: n.s, Args: args, Pos: ps.pos}
		}
	}
	ps.fail("unexpected token " + t.s)
	return nil
}

func (ps *parser) args() []*Expr {
	var args []*Expr
	if ps.isOp(")") {
		ps.p++
		return args
	}
	for {
		args = append(args, ps.expr(0))
		if ps.isOp(",") {
			ps.p++
			continue
		}
		ps.expect(")")
		return args
	}
}

func (ps *parser) postfix(x *Expr) *Expr {
	for {
		switch {
		case ps.isOp("."):
			ps.p++
			t := ps.next()
			if t.k != "id" {
				ps.fail("field name expected")
			}
			x = &Expr{Op: "field", Name: t.s, Args: []*Expr{x}, Pos: ps.pos}
		case ps.isOp("["):
			ps.p++
			var lo, hi *Expr
			if !ps.isOp(":") {
				lo = ps.expr(0)
			}
			if ps.isOp("]") {
				ps.p++
				x = &Expr{Op: "index", Args: []*Expr{x, lo}, Pos: ps.pos}
				continue
			}
			ps.expect(":")
			if !ps.isOp("]") {
				hi = ps.expr(0)
			}
			ps.expect("]")
			x = &Expr{Op: "slice", Args: []*Expr{x, lo, hi}, Pos: ps.pos}
		default:
			return x
		}
	}
}

// ---------- contract file structure ----------

type Clause struct {
	Label string
	E     *Expr
	Src   string
	Pos   string
}

type LoopContract struct {
	Invariants []Clause
	Decreases  *Clause
	Modifies   []Clause
	ModAny     bool // "modifies *": the loop may change any memory (abstracted calls in the body)
	Unroll     bool
}

type FuncContract struct {
	Name       string // qualified within package: "VLen" or "(*Field).Mul"
	Pkg        string
	Props      []string
	Requires   []Clause
	Ensures    []Clause
	Panics     []Clause // exceptional postconditions (recovering functions)
	Modifies   []Clause
	HasModifies bool
	Loops      map[int]*LoopContract
	Inline     bool
	InlineIn   []string // package path suffixes whose call sites inline the body instead of using the contract
	Assumed    bool // contract taken on trust: not verified, listed in evidence
	Pure       bool // no heap writes, no allocation visible to the caller
	NoOverflow bool
	MayPanic   bool // callers must not rely on absence of panics
	// PanicsIf: the function panics exactly when one of these conditions (over the entry
	// state) holds: every panic point inside is proved to be reached only under one of them,
	// every normal return only when none holds. At a call the condition is a panic edge of
	// the caller: an obligation, or - under a recovering defer - a path to the exceptional exit.
	PanicsIf []Clause
	DeadReturns map[int]bool // return statements known to be unreachable under the assumed contracts (defensive code): no cover obligation
	SplitReturns bool // the representation invariant is checked at each return statement separately
	StrictPanics bool // a recovering defer gives no credit: every possible panic is an obligation (the recover only logs)
	NoLocks    bool // the function is entered with no mutex held (obligation at call sites)
	NoNilCheck bool // nil dereferences are not checked (pointers into node-internal structures)
	NoPanicCheck bool // do not emit nopanic obligations (functional contract only)
	DataInv    []Clause // representation invariant: assumed at entry and after every abstracted call, proved at exit
	Inducts    []*SpecFunc // induct name(vars..., n): P  -- proved by induction on n from 0, then assumed
	RecSpecs   []*SpecFunc // function-local recursive spec functions over the entry state
	StateRecs  []*SpecFunc // recursive spec functions of one index evaluated over the memory of the state they are used in
	MakeBound  *Clause  // every make() in the body allocates at most this many elements
	Excuses    []Clause // known-finding excuses keyed by obligation label
	File       string
	Line       int
}

type SpecFunc struct {
	Like map[string]*Expr // staterec: parameters typed like an expression
	Name   string
	Params []string
	Body   *Expr
	Pos    string
}

type UFDecl struct {
	Name string
	Args []Sort
	Res  Sort
}

type Lemma struct {
	Name   string
	Pkg    string
	Props  []string
	E      *Expr
	Src    string
	Pos    string
	Split  []SplitSpec
	Axiom  bool
}

type SplitSpec struct {
	Var    string
	Lo, Hi int64
}

type GlobalInv struct {
	Pkg string
	C   Clause
}

// MapVal: an assumed invariant of the values stored in a package-level map ("v" names the value).
type MapVal struct {
	Pkg, Name string
	C         Clause
}

type ContractFile struct {
	Immutables []string // package-level variables that never change after initialisation
	MapVals []MapVal
	Globals []GlobalInv
	Pkg    string
	Funcs  []*FuncContract
	Specs  []*SpecFunc
	UFs    []*UFDecl
	Lemmas []*Lemma
}

var clauseKW = map[string]bool{"immutable": true, "mapval": true, "global": true, "func": true, "spec": true, "uf": true, "lemma": true, "axiom": true,
	"staterec": true, "props": true, "requires": true, "ensures": true, "panics": true, "panicsif": true, "modifies": true, "loop": true,
	"inline": true, "inlinein": true, "assumed": true, "pure": true, "nooverflow": true, "maypanic": true, "nopaniccheck": true, "nonilcheck": true, "nolocks": true, "strictpanics": true, "splitreturns": true, "deadreturn": true,
	"split": true, "excuse": true, "makebound": true, "recspec": true, "induct": true, "datainv": true}

var labelRe = regexp.MustCompile(`^([A-Za-z_][A-Za-z0-9_]*):\s+(.*)$`)

func parseContractFile(path, pkg string) (*ContractFile, error) {
	data, err := os.ReadFile(path)
	if err != nil {
		return nil, err
	}
	cf := &ContractFile{Pkg: pkg}
	// gather logical lines
	type lline struct {
		text string
		line int
	}
	var lines []lline
	for i, raw := range strings.Split(string(data), "\n") {
		s := strings.TrimSpace(raw)
		if !strings.HasPrefix(s, "//@") {
			continue
		}
		s = strings.TrimSpace(s[3:])
		if k := strings.Index(s, " //"); k >= 0 { // trailing comment
			s = strings.TrimSpace(s[:k])
		}
		if strings.HasPrefix(s, "//") || s == "" {
			continue
		}
		first := s
		if k := strings.IndexAny(s, " \t"); k >= 0 {
			first = s[:k]
		}
		if clauseKW[first] || len(lines) == 0 {
			lines = append(lines, lline{s, i + 1})
		} else {
			lines[len(lines)-1].text += " " + s
		}
	}
	var cur *FuncContract
	var curLemma *Lemma
	mkClause := func(body string, line int) (Clause, error) {
		pos := fmt.Sprintf("%s:%d", path, line)
		label := ""
		if m := labelRe.FindStringSubmatch(body); m != nil && m[1] != "forall" && m[1] != "exists" {
			label, body = m[1], m[2]
		}
		e, err := parseExpr(body, pos)
		if err != nil {
			return Clause{}, err
		}
		return Clause{Label: label, E: e, Src: body, Pos: pos}, nil
	}
	for _, ll := range lines {
		kw, rest := ll.text, ""
		if k := strings.IndexAny(ll.text, " \t"); k >= 0 {
			kw, rest = ll.text[:k], strings.TrimSpace(ll.text[k+1:])
		}
		pos := fmt.Sprintf("%s:%d", path, ll.line)
		switch kw {
		case "func":
			cur = &FuncContract{Name: rest, Pkg: pkg, Loops: map[int]*LoopContract{}, File: path, Line: ll.line}
			curLemma = nil
			cf.Funcs = append(cf.Funcs, cur)
		case "spec":
			m := regexp.MustCompile(`^([A-Za-z_][A-Za-z0-9_]*)\s*\(([^)]*)\)\s*=\s*(.*)$`).FindStringSubmatch(rest)
			if m == nil {
				return nil, fmt.Errorf("%s: bad spec declaration", pos)
			}
			var params []string
			for _, p := range strings.Split(m[2], ",") {
				if p = strings.TrimSpace(p); p != "" {
					params = append(params, p)
				}
			}
			e, err := parseExpr(m[3], pos)
			if err != nil {
				return nil, err
			}
			cf.Specs = append(cf.Specs, &SpecFunc{Name: m[1], Params: params, Body: e, Pos: pos})
			cur, curLemma = nil, nil
		case "uf":
			m := regexp.MustCompile(`^([A-Za-z_][A-Za-z0-9_]*)\s*\(([^)]*)\)\s*(\w+)$`).FindStringSubmatch(rest)
			if m == nil {
				return nil, fmt.Errorf("%s: bad uf declaration", pos)
			}
			u := &UFDecl{Name: m[1]}
			for _, p := range strings.Split(m[2], ",") {
				if p = strings.TrimSpace(p); p != "" {
					s, err := parseSort(p)
					if err != nil {
						return nil, fmt.Errorf("%s: %v", pos, err)
					}
					u.Args = append(u.Args, s)
				}
			}
			s, err := parseSort(m[3])
			if err != nil {
				return nil, fmt.Errorf("%s: %v", pos, err)
			}
			u.Res = s
			cf.UFs = append(cf.UFs, u)
			cur, curLemma = nil, nil
		case "lemma", "axiom":
			k := strings.Index(rest, ":")
			if k < 0 {
				return nil, fmt.Errorf("%s: lemma needs name:", pos)
			}
			e, err := parseExpr(rest[k+1:], pos)
			if err != nil {
				return nil, err
			}
			curLemma = &Lemma{Name: strings.TrimSpace(rest[:k]), Pkg: pkg, E: e, Src: strings.TrimSpace(rest[k+1:]), Pos: pos, Axiom: kw == "axiom"}
			cf.Lemmas = append(cf.Lemmas, curLemma)
			cur = nil
		case "immutable":
			cf.Immutables = append(cf.Immutables, strings.Fields(strings.ReplaceAll(rest, ",", " "))...)
			cur, curLemma = nil, nil
		case "mapval":
			k := strings.Index(rest, ":")
			if k < 0 {
				return nil, fmt.Errorf("%s: mapval needs `Name: predicate over v`", pos)
			}
			c, err := mkClause(strings.TrimSpace(rest[k+1:]), ll.line)
			if err != nil {
				return nil, err
			}
			cf.MapVals = append(cf.MapVals, MapVal{Pkg: pkg, Name: strings.TrimSpace(rest[:k]), C: c})
			cur, curLemma = nil, nil
		case "global":
			c, err := mkClause(rest, ll.line)
			if err != nil {
				return nil, err
			}
			cf.Globals = append(cf.Globals, GlobalInv{Pkg: pkg, C: c})
			cur, curLemma = nil, nil
		case "props":
			if cur != nil {
				cur.Props = strings.Fields(rest)
			} else if curLemma != nil {
				curLemma.Props = strings.Fields(rest)
			}
		case "split":
			m := regexp.MustCompile(`^(\w+)\s+in\s+(-?\d+)\s*\.\.\s*(-?\d+)$`).FindStringSubmatch(rest)
			if m == nil || curLemma == nil {
				return nil, fmt.Errorf("%s: bad split", pos)
			}
			lo, _ := strconv.ParseInt(m[2], 10, 64)
			hi, _ := strconv.ParseInt(m[3], 10, 64)
			curLemma.Split = append(curLemma.Split, SplitSpec{m[1], lo, hi})
		default:
			if cur == nil {
				return nil, fmt.Errorf("%s: clause %q outside func", pos, kw)
			}
			switch kw {
			case "recspec", "staterec":
				m := regexp.MustCompile(`^([A-Za-z_][A-Za-z0-9_]*)\s*\(([^)]*)\)\s*=\s*(.*)$`).FindStringSubmatch(rest)
				if m == nil {
					return nil, fmt.Errorf("%s: bad recspec declaration", pos)
				}
				var params []string
				for _, p := range strings.Split(m[2], ",") {
					if p = strings.TrimSpace(p); p != "" {
						params = append(params, p)
					}
				}
				e, err := parseExpr(m[3], pos)
				if err != nil {
					return nil, err
				}
				if kw == "staterec" {
					// parameters: `name` (integer) or `name ~ expr` (a value of the type of expr,
					// e.g. a slice); the last one is the integer index the recursion runs over
					sf := &SpecFunc{Name: m[1], Body: e, Pos: pos, Like: map[string]*Expr{}}
					for _, p := range params {
						if k := strings.Index(p, "~"); k > 0 {
							nm := strings.TrimSpace(p[:k])
							te, err := parseExpr(strings.TrimSpace(p[k+1:]), pos)
							if err != nil {
								return nil, err
							}
							sf.Params = append(sf.Params, nm)
							sf.Like[nm] = te
						} else {
							sf.Params = append(sf.Params, p)
						}
					}
					if len(sf.Params) < 1 || sf.Like[sf.Params[len(sf.Params)-1]] != nil {
						return nil, fmt.Errorf("%s: the last parameter of a staterec is its integer index", pos)
					}
					cur.StateRecs = append(cur.StateRecs, sf)
				} else {
					cur.RecSpecs = append(cur.RecSpecs, &SpecFunc{Name: m[1], Params: params, Body: e, Pos: pos})
				}
			case "induct":
				m := regexp.MustCompile(`^([A-Za-z_][A-Za-z0-9_]*)\s*\(([^)]*)\)\s*:\s*(.*)$`).FindStringSubmatch(rest)
				if m == nil {
					return nil, fmt.Errorf("%s: bad induct declaration", pos)
				}
				var params []string
				for _, p := range strings.Split(m[2], ",") {
					if p = strings.TrimSpace(p); p != "" {
						params = append(params, p)
					}
				}
				e, err := parseExpr(m[3], pos)
				if err != nil {
					return nil, err
				}
				cur.Inducts = append(cur.Inducts, &SpecFunc{Name: m[1], Params: params, Body: e, Pos: pos})
			case "makebound":
				c, err := mkClause(rest, ll.line)
				if err != nil {
					return nil, err
				}
				cur.MakeBound = &c
			case "datainv":
				c, err := mkClause(rest, ll.line)
				if err != nil {
					return nil, err
				}
				cur.DataInv = append(cur.DataInv, c)
			case "requires", "ensures", "panics", "panicsif", "modifies", "excuse":
				if kw == "modifies" {
					cur.HasModifies = true
					if rest == "nothing" || rest == "" {
						continue
					}
					for _, part := range splitTop(rest) {
						c, err := mkClause(part, ll.line)
						if err != nil {
							return nil, err
						}
						cur.Modifies = append(cur.Modifies, c)
					}
					continue
				}
				c, err := mkClause(rest, ll.line)
				if err != nil {
					return nil, err
				}
				switch kw {
				case "requires":
					cur.Requires = append(cur.Requires, c)
				case "ensures":
					cur.Ensures = append(cur.Ensures, c)
				case "panics":
					cur.Panics = append(cur.Panics, c)
				case "panicsif":
					cur.PanicsIf = append(cur.PanicsIf, c)
				case "excuse":
					cur.Excuses = append(cur.Excuses, c)
				}
			case "loop":
				f := strings.Fields(rest)
				if len(f) < 2 {
					return nil, fmt.Errorf("%s: bad loop clause", pos)
				}
				n, err := strconv.Atoi(f[0])
				if err != nil {
					return nil, fmt.Errorf("%s: bad loop ordinal", pos)
				}
				lc := cur.Loops[n]
				if lc == nil {
					lc = &LoopContract{}
					cur.Loops[n] = lc
				}
				body := strings.TrimSpace(strings.TrimPrefix(strings.TrimSpace(strings.TrimPrefix(rest, f[0])), f[1]))
				switch f[1] {
				case "invariant":
					c, err := mkClause(body, ll.line)
					if err != nil {
						return nil, err
					}
					lc.Invariants = append(lc.Invariants, c)
				case "decreases":
					c, err := mkClause(body, ll.line)
					if err != nil {
						return nil, err
					}
					lc.Decreases = &c
				case "modifies":
					if body == "*" {
						lc.ModAny = true
						break
					}
					for _, part := range splitTop(body) {
						c, err := mkClause(part, ll.line)
						if err != nil {
							return nil, err
						}
						lc.Modifies = append(lc.Modifies, c)
					}
				case "unroll":
					lc.Unroll = true
				default:
					return nil, fmt.Errorf("%s: unknown loop clause %q", pos, f[1])
				}
			case "inline":
				cur.Inline = true
			case "inlinein":
				// seen through (like inline) at call sites in the named packages, used by
				// contract everywhere else; the contract itself is verified as usual
				cur.InlineIn = append(cur.InlineIn, strings.Fields(rest)...)
			case "assumed":
				cur.Assumed = true
			case "pure":
				cur.Pure = true
			case "nooverflow":
				cur.NoOverflow = true
			case "maypanic":
				cur.MayPanic = true
			case "nopaniccheck":
				cur.NoPanicCheck = true
			case "nonilcheck":
				cur.NoNilCheck = true
			case "nolocks":
				cur.NoLocks = true
			case "strictpanics":
				cur.StrictPanics = true
			case "splitreturns":
				cur.SplitReturns = true
			case "deadreturn":
				if cur.DeadReturns == nil {
					cur.DeadReturns = map[int]bool{}
				}
				for _, f := range strings.Fields(strings.ReplaceAll(rest, ",", " ")) {
					n, err := strconv.Atoi(f)
					if err != nil {
						return nil, fmt.Errorf("%s: deadreturn needs return ordinals", pos)
					}
					cur.DeadReturns[n] = true
				}
			default:
				return nil, fmt.Errorf("%s: unknown clause %q", pos, kw)
			}
		}
	}
	return cf, nil
}

func parseSort(s string) (Sort, error) {
	switch s {
	case "Int":
		return SInt, nil
	case "Bool":
		return SBool, nil
	case "Arr":
		return SArr, nil
	}
	return SInt, fmt.Errorf("unknown sort %q", s)
}

// splitTop splits on commas that are not nested in brackets.
func splitTop(s string) []string {
	var out []string
	depth, start := 0, 0
	for i, c := range s {
		switch c {
		case '(', '[':
			depth++
		case ')', ']':
			depth--
		case ',':
			if depth == 0 {
				out = append(out, strings.TrimSpace(s[start:i]))
				start = i + 1
			}
		}
	}
	out = append(out, strings.TrimSpace(s[start:]))
	return out
}
