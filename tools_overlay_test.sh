#!/bin/bash
# tools_overlay_test.sh <repo-root> <pkg-dir-relative> <test-file> [run-regexp]: run an in-package test through -overlay
export GOFLAGS=-mod=mod GOPROXY=off GOSUMDB=off GOTOOLCHAIN=local
R=$1; P=$2; T=$(readlink -f $3); RUN=${4:-.}
D=$(mktemp -d); trap "rm -rf $D" EXIT
echo "{\"Replace\":{\"$R/$P/zz_witness_test.go\":\"$T\"}}" > $D/ov.json
cd $R/$P && go test -v -overlay $D/ov.json -vet=off -count=1 -timeout 120s -run "$RUN" . 2>&1 | grep -v "^=== RUN" | tail -40
