#!/bin/bash
# tools_mut.sh <prop> <file-in-repo> <sed-expr> [func-regex]: apply a mutation to /repo, run the check, revert.
P=$1; F=$2; E=$3; FN=$4
cd /repo && cp "$F" /tmp/mut_backup.$$ && sed -i "$E" "$F"
if cmp -s "$F" /tmp/mut_backup.$$; then echo "MUTATION DID NOT APPLY"; fi
git diff --stat -- "$F" | tail -1
if [ -n "$FN" ]; then /verif/bin/gocv check -prop $P -func "$FN" 2>&1 | grep -E "VIOLATION|UNDECIDED|^property" ; else /verif/bin/gocv check -prop $P 2>&1 | grep -E "VIOLATION|UNDECIDED|^property"; fi
cp /tmp/mut_backup.$$ "$F"; rm -f /tmp/mut_backup.$$
