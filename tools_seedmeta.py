#!/usr/bin/env python3
# Rebuilds /verif/seeded/<id>/meta.json from confirm.json and descriptions.json
import json,os
D=json.load(open('/verif/seeded/descriptions.json'))
for d in sorted(os.listdir('/verif/seeded')):
    p='/verif/seeded/%s/confirm.json'%d
    if not os.path.exists(p) or d not in D: continue
    c=json.load(open(p))
    meta={"seed":d,"breaks_property":c["property"],"change":D[d]["change"],"needs_to_manifest":D[d]["needs"],
      "produced_by":"independent sub-agent given only the property text and a scratch worktree without /verif material"+(" (patch re-based onto the later tree: "+D[d]["rebased"]+")" if D[d].get("rebased") else ""),
      "confirmed":{"compiles":True,"existing_tests_still_pass":c["existing_tests_failing_with_change"]==0,"demo_fails_with_change":c["demo_fails_with_change"],"demo_passes_without":c["demo_passes_on_unchanged"],
                   "how":"tools_seed.sh: scratch worktree of /repo HEAD, git apply patch.diff, go build, go test of lib/btc lib/script lib/utxo lib/secp256k1 bech32 wallet, demo test in "+c["demo_pkg"]+" with and without the patch"},
      "check_run":{"cmd":"git -C /repo apply patch.diff; ./check %s quick; git -C /repo checkout -- ."%c["property"],"exit":c["check_exit"],"detected":c["check_violation_lines"]>0,"obligations":c["check_obligations"]}}
    json.dump(meta,open('/verif/seeded/%s/meta.json'%d,'w'),indent=1)
    print(d, "DETECTED" if meta["check_run"]["detected"] else "missed", c["check_obligations"])

# markdown table for DESIGN.md section 10.6
rows=[]
for d in sorted(os.listdir('/verif/seeded')):
    p='/verif/seeded/%s/meta.json'%d
    if not os.path.exists(p): continue
    m=json.load(open(p))
    rows.append("| %s | %s | %s | %s |"%(d,m["change"].replace("|","\\|"),"caught" if m["check_run"]["detected"] else "missed",", ".join("`%s`"%o.split("#")[-1] for o in m["check_run"]["obligations"][:3])))
open('/verif/seeded/RESULTS.md','w').write("| seed | change | check %s | failing obligations |\n|---|---|---|---|\n"%"" + "\n".join(rows)+"\n")
