package btc

import "testing"

// F27: NewBlock slices data[:80] before looking at the length, so any non-nil input shorter
// than a block header panics instead of being reported as an error.
func TestWitnessF27NewBlockShort(t *testing.T) {
	defer func() {
		if r := recover(); r != nil {
			t.Fatalf("F27: NewBlock panicked on a 10-byte input: %v", r)
		}
	}()
	bl, er := NewBlock(make([]byte, 10))
	if er == nil {
		t.Fatalf("F27: NewBlock accepted a 10-byte block: %v", bl)
	}
}
