package network

import (
	"encoding/binary"
	"math/big"
	"testing"

	"github.com/piotrnar/gocoin/client/peersdb"
)

// F20: ProcessInv checks len(pl) == of+36*cnt in wrapping int arithmetic. A count of about
// 2^61 makes 36*cnt wrap to the remaining payload length, the check passes, and the second
// slice of the first iteration runs past the payload - with c.Mutex held.
func TestWitnessF20InvCountWrap(t *testing.T) {
	c := &OneConnection{}
	c.PeerAddr = &peersdb.PeerAddr{}
	// 37 bytes: 0xff + 8-byte count + 28 bytes; need 36*cnt == 28 (mod 2^64)
	m := new(big.Int).Lsh(big.NewInt(1), 62)
	inv9 := new(big.Int).ModInverse(big.NewInt(9), m)
	cnt := new(big.Int).Mul(big.NewInt(7), inv9)
	cnt.Mod(cnt, m)
	pl := make([]byte, 37)
	pl[0] = 0xff
	binary.LittleEndian.PutUint64(pl[1:9], cnt.Uint64())
	if got := 9 + 36*int(cnt.Uint64()); got != len(pl) {
		t.Skipf("arithmetic of the witness is off: %d", got)
	}
	defer func() {
		if r := recover(); r != nil {
			locked := !c.Mutex.TryLock()
			t.Fatalf("F20: ProcessInv panicked on a 37-byte payload with count %d: %v (connection mutex still locked: %v)", cnt, r, locked)
		}
	}()
	c.ProcessInv(pl)
}
