package btc

import (
	"runtime"
	"encoding/hex"
	"testing"
	"time"
)

// a valid 1-in 1-out legacy transaction (60 bytes)
func wValidTx() []byte {
	b := []byte{1, 0, 0, 0, 1}
	b = append(b, make([]byte, 32)...)     // prevout hash
	b = append(b, 0, 0, 0, 0)              // vout
	b = append(b, 0)                       // empty scriptSig
	b = append(b, 0xff, 0xff, 0xff, 0xff)  // sequence
	b = append(b, 1)                       // 1 output
	b = append(b, 1, 0, 0, 0, 0, 0, 0, 0)  // value
	b = append(b, 0)                       // empty pk_script
	b = append(b, 0, 0, 0, 0)              // lock time
	return b
}

// F25: NewTx on a truncated slice whose capacity still holds the full bytes
func TestWitnessF25OverRead(t *testing.T) {
	raw := wValidTx()
	tx, offs := NewTx(raw[:len(raw)-1])
	if tx != nil {
		t.Fatalf("F25: NewTx accepted a truncated byte string (len %d) and reports %d bytes consumed", len(raw)-1, offs)
	}
}

// F11: a transaction holding a nil *TxIn
func TestWitnessF11NilTxIn(t *testing.T) {
	b := []byte{1, 0, 0, 0, 1}
	b = append(b, make([]byte, 36)...)
	b = append(b, 0xfd) // truncated script length prefix -> NewTxIn returns nil,0
	tx, _ := NewTx(b)
	if tx != nil {
		for i, ti := range tx.TxIn {
			if ti == nil {
				t.Fatalf("F11: NewTx returned a transaction with nil TxIn[%d]", i)
			}
		}
	}
	// a more complete shape: count 1, bad input, then 0 outputs and lock time
	b2 := append([]byte{}, b...)
	tx, _ = NewTx(b2)
	_ = tx
	b3, _ := hex.DecodeString("01000000" + "01" + "000000000000000000000000000000000000000000000000000000000000000000000000" + "fd")
	// after the failed input the parser reads the out count at the same offset
	tx, _ = NewTx(b3)
	if tx != nil {
		for i, ti := range tx.TxIn {
			if ti == nil {
				t.Fatalf("F11: nil TxIn[%d]", i)
			}
		}
	}
}

// F14: TxSize spins on an input count that the data cannot hold
func TestWitnessF14Spin(t *testing.T) {
	b := []byte{1, 0, 0, 0, 0xfe, 0xff, 0xff, 0xff, 0x0f} // 0x0fffffff inputs
	b = append(b, make([]byte, 36)...)
	b = append(b, 0xfd) // TxInSize -> 0 every time
	t0 := time.Now()
	n := TxSize(b)
	d := time.Since(t0)
	if d > 200*time.Millisecond {
		t.Fatalf("F14: TxSize spent %v on %d bytes (returned %d)", d, len(b), n)
	}
}

// F24: TxSize returns more than len(b)
func TestWitnessF24Beyond(t *testing.T) {
	raw := wValidTx()
	b := raw[:len(raw)-3:len(raw)-3]
	n := TxSize(b)
	if n > len(b) {
		t.Fatalf("F24: TxSize returned %d for %d bytes", n, len(b))
	}
}

// F10: non-minimal CompactSize accepted
func TestWitnessF10NonCanonical(t *testing.T) {
	le, n := VLen([]byte{0xfd, 0x01, 0x00})
	if n != 0 {
		t.Fatalf("F10: VLen accepted the non-minimal encoding fd0100 as %d", le)
	}
	le, n = VLen([]byte{0xff, 0, 0, 0, 0, 0, 0, 0, 0x80})
	if n != 0 && le < 0 {
		t.Fatalf("F10: VLen returned a negative length %d", le)
	}
}

// F12: allocation out of proportion
func TestWitnessF12Alloc(t *testing.T) {
	b := []byte{1, 0, 0, 0, 0xfe, 0x00, 0x00, 0x00, 0x04} // 0x04000000 = 67M inputs -> 512 MiB of pointers
	var before, after uint64
	before = wAlloc()
	NewTx(b)
	after = wAlloc()
	if after-before > 1<<20 {
		t.Fatalf("F12: NewTx allocated %d bytes for a %d-byte input", after-before, len(b))
	}
}

func wAlloc() uint64 {
	var m runtime.MemStats
	runtime.ReadMemStats(&m)
	return m.TotalAlloc
}

// F13: witness-flagged transaction without any witness item ("superfluous witness record")
func TestWitnessF13SuperfluousWitness(t *testing.T) {
	b := []byte{1, 0, 0, 0, 0, 1, 1} // version, marker, flag, 1 input
	b = append(b, make([]byte, 36)...)
	b = append(b, 0)                      // empty scriptSig
	b = append(b, 0xff, 0xff, 0xff, 0xff) // sequence
	b = append(b, 1)                      // 1 output
	b = append(b, 1, 0, 0, 0, 0, 0, 0, 0, 0)
	b = append(b, 0)          // witness stack of input 0: no items
	b = append(b, 0, 0, 0, 0) // lock time
	tx, offs := NewTx(b)
	if tx != nil {
		t.Fatalf("F13: NewTx accepted a witness-flagged transaction without witness (%d bytes)", offs)
	}
}
