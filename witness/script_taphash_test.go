package script

import (
	"testing"

	"github.com/piotrnar/gocoin/lib/btc"
	"github.com/piotrnar/gocoin/lib/secp256k1"
)

// F2: an undefined taproot hash type (0x04) makes TaprootSigHash return 32 zero bytes, and
// the signature is then checked against that constant: a signature over the all-zero
// message is accepted for ANY transaction, although BIP341 says such a spend is invalid.
func TestWitnessF2UndefinedTapHashType(t *testing.T) {
	sk := make([]byte, 32)
	sk[31] = 7
	pub := make([]byte, 33)
	if !secp256k1.BaseMultiply(sk, pub) {
		t.Fatal("pubkey")
	}
	zero := make([]byte, 32)
	sig := secp256k1.SchnorrSign(zero, sk, make([]byte, 32))
	if len(sig) != 64 {
		t.Fatal("sign")
	}
	tx := &btc.Tx{Version: 2}
	tx.TxIn = []*btc.TxIn{{Sequence: 0xffffffff}}
	tx.TxOut = []*btc.TxOut{{Value: 1, Pk_script: []byte{0x51}}}
	tx.AllocVerVars()
	tx.Spent_outputs = []*btc.TxOut{{Value: 2, Pk_script: append([]byte{0x51, 0x20}, pub[1:]...)}}
	c := &SigChecker{Tx: tx, Idx: 0, Amount: 2}
	var ex btc.ScriptExecutionData
	sig65 := append(append([]byte{}, sig...), 0x04) // undefined hash type
	if c.CheckSchnorrSignature(sig65, pub[1:], SIGVERSION_TAPROOT, &ex) {
		t.Fatalf("F2: key-path signature with undefined hash type 0x04 accepted (digest was the zero constant)")
	}
}
