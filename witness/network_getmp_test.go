package network

import (
	"runtime"
	"testing"

	"github.com/piotrnar/gocoin/client/peersdb"
)

// F28: ProcessGetMP passes the peer's 64-bit count straight to make(map, cnt). A 9-byte getmp
// payload announcing 2^27 entries makes the node allocate room for 2^27 map entries before
// it notices that the payload holds none of them (larger counts ask for proportionally
// more, up to the allocator's limit, and end in an out-of-memory crash).
func TestWitnessF28GetMPAllocation(t *testing.T) {
	c := &OneConnection{}
	c.PeerAddr = &peersdb.PeerAddr{}
	pl := []byte{0xfe, 0x00, 0x00, 0x00, 0x08} // count = 2^27, no entries follow
	var m0, m1 runtime.MemStats
	runtime.ReadMemStats(&m0)
	c.ProcessGetMP(pl)
	runtime.ReadMemStats(&m1)
	if d := m1.TotalAlloc - m0.TotalAlloc; d > 64<<20 {
		t.Fatalf("F28: a %d-byte getmp payload made the handler allocate %d MB", len(pl), d>>20)
	}
}
