package network

import (
	"encoding/binary"
	"net"
	"testing"
	"time"

	"github.com/piotrnar/gocoin/client/common"
	"github.com/piotrnar/gocoin/client/peersdb"
)

// F30: FetchMessage trusts the "encrypted" bit (top bit of the length field) before any key
// exists: it adds c.aesData.nonceSize to the size limit while c.aesData is still nil. A
// 24-byte message header with the bit set, sent as the very first thing on a connection,
// makes the receive loop dereference nil.
func TestWitnessF30EncryptedBitWithoutKey(t *testing.T) {
	a, b := net.Pipe()
	defer a.Close()
	defer b.Close()
	c := &OneConnection{}
	c.PeerAddr = &peersdb.PeerAddr{}
	c.Conn = a
	hdr := make([]byte, 24)
	copy(hdr[0:4], common.Magic[:])
	copy(hdr[4:16], "version")
	binary.LittleEndian.PutUint32(hdr[16:20], 0x80000000|5) // 5 payload bytes, "encrypted"
	go func() {
		b.SetWriteDeadline(time.Now().Add(2 * time.Second))
		b.Write(hdr)
	}()
	defer func() {
		if r := recover(); r != nil {
			t.Fatalf("F30: FetchMessage panicked on a 24-byte header with the encrypted bit set: %v", r)
		}
	}()
	a.SetReadDeadline(time.Now().Add(2 * time.Second))
	for i := 0; i < 4; i++ {
		if msg, _ := c.FetchMessage(); msg != nil || c.IsBroken() {
			break
		}
	}
}
