package btc

import "testing"

// F7: MAX_MONEY is never enforced: a transaction whose outputs are above 21e6 BTC, or wrap
// around uint64 when summed, passes CheckTransaction.
func TestWitnessF7MaxMoney(t *testing.T) {
	tx := &Tx{Version: 1}
	tx.TxIn = []*TxIn{{Input: TxPrevOut{Hash: [32]byte{1}, Vout: 0}, Sequence: 0xffffffff}}
	tx.TxOut = []*TxOut{{Value: 1 << 63, Pk_script: []byte{0x51}}, {Value: 1<<63 + 1000, Pk_script: []byte{0x51}}}
	tx.NoWitSize, tx.Size = 100, 100
	if er := tx.CheckTransaction(); er == nil {
		t.Fatalf("F7: outputs of 2^63 and 2^63+1000 satoshi accepted (sum wraps to 1000)")
	}
	tx.TxOut = []*TxOut{{Value: MAX_MONEY + 1, Pk_script: []byte{0x51}}}
	if er := tx.CheckTransaction(); er == nil {
		t.Fatalf("F7: output above MAX_MONEY accepted")
	}
}
