package secp256k1

import (
	"encoding/hex"
	"math/big"
	"testing"
)

// F3: a signature whose S is replaced by S+n (encoded as a 33-byte INTEGER) still verifies
func TestWitnessF3SPlusN(t *testing.T) {
	pkey, _ := hex.DecodeString(ta[2][0])
	sign, _ := hex.DecodeString(ta[2][1])
	msg, _ := hex.DecodeString(ta[2][2])
	if ecdsa_verify(pkey, sign, msg) != 1 {
		t.Fatal("vector does not verify")
	}
	var s Signature
	if s.ParseBytes(sign) < 0 {
		t.Fatal("parse")
	}
	n, _ := new(big.Int).SetString("FFFFFFFFFFFFFFFFFFFFFFFFFFFFFFFEBAAEDCE6AF48A03BBFD25E8CD0364141", 16)
	s2 := new(big.Int).Add(&s.S.Int, n)
	rb, sb := s.R.Bytes(), s2.Bytes()
	if rb[0] >= 0x80 {
		rb = append([]byte{0}, rb...)
	}
	if sb[0] >= 0x80 {
		sb = append([]byte{0}, sb...)
	}
	der := []byte{0x30, byte(4 + len(rb) + len(sb)), 0x02, byte(len(rb))}
	der = append(der, rb...)
	der = append(der, 0x02, byte(len(sb)))
	der = append(der, sb...)
	if ecdsa_verify(pkey, der, msg) == 1 {
		t.Fatalf("F3: signature with S+n (S >= group order, %d-byte integer) accepted", len(sb))
	}
}
