package network

import (
	"testing"

	"github.com/piotrnar/gocoin/client/peersdb"
)

// F1: a version message whose user-agent length runs past the payload makes HandleVersion
// slice out of range - with c.Mutex held.
func TestWitnessF1VersionAgentLength(t *testing.T) {
	c := &OneConnection{}
	c.PeerAddr = &peersdb.PeerAddr{}
	pl := make([]byte, 82)
	pl[80] = 2 // agent length 2, but only one byte follows
	defer func() {
		if r := recover(); r != nil {
			locked := !c.Mutex.TryLock()
			t.Fatalf("F1: HandleVersion panicked on an 82-byte payload: %v (connection mutex still locked: %v)", r, locked)
		}
	}()
	c.HandleVersion(pl)
}

// same defect through integer wrap-around: an agent length close to 2^63 makes 80+of+le wrap
func TestWitnessF1VersionAgentLengthWrap(t *testing.T) {
	c := &OneConnection{}
	c.PeerAddr = &peersdb.PeerAddr{}
	pl := make([]byte, 100)
	copy(pl[80:], []byte{0xff, 0xff, 0xff, 0xff, 0xff, 0xff, 0xff, 0xff, 0x7f})
	defer func() {
		if r := recover(); r != nil {
			t.Fatalf("F1: HandleVersion panicked: %v", r)
		}
	}()
	c.HandleVersion(pl)
}
