package btc

import "testing"

// F17: an amount above 184467440737.09551615 BTC wraps around uint64
func TestWitnessF17AmountWrap(t *testing.T) {
	v, er := StringToSatoshis("184467440738")
	if er == nil {
		t.Fatalf("F17: 184467440738 BTC parsed as %d satoshi (wrapped)", v)
	}
	v, er = StringToSatoshis("184467440737.10000000")
	if er == nil {
		t.Fatalf("F17: 184467440737.1 BTC parsed as %d satoshi (wrapped)", v)
	}
}
