package network

import (
	"crypto/sha256"
	"encoding/binary"
	"testing"

	"github.com/piotrnar/gocoin/lib/others/siphash"

	"github.com/piotrnar/gocoin/client/common"
	"github.com/piotrnar/gocoin/client/peersdb"
	"github.com/piotrnar/gocoin/client/txpool"
	"github.com/piotrnar/gocoin/lib/btc"
)

func cmpctSetup(t *testing.T, pl []byte) *OneConnection {
	c := &OneConnection{}
	c.PeerAddr = &peersdb.PeerAddr{}
	c.Node.SendCmpctVer = 2
	c.InvDone.Map = make(map[uint64]uint32)
	c.GetBlockInProgress = make(map[btc.BIDX]*oneBlockDl)
	if common.Counter == nil {
		common.Counter = make(map[string]uint64)
	}
	common.CFG.Net.MaxBlockAtOnce = 10
	bl, er := btc.NewBlock(pl[:80])
	if er != nil {
		t.Fatal(er)
	}
	if BlocksToGet == nil {
		BlocksToGet = make(map[btc.BIDX]*OneBlockToGet)
	}
	BlocksToGet[bl.Hash.BIdx()] = &OneBlockToGet{Block: bl}
	return c
}

// F21: the prefilled-transaction index is range-checked before the running offset is added
// to it, so the second of two prefilled entries can index past col.Txs.
func TestWitnessF21CmpctPrefilledIndex(t *testing.T) {
	tx := make([]byte, 10) // version(4) 0 inputs, 0 outputs, locktime(4): TxSize accepts it
	pl := make([]byte, 88)
	pl = append(pl, 0)    // no short ids
	pl = append(pl, 2)    // two prefilled transactions
	pl = append(pl, 1)    // first at index 1
	pl = append(pl, tx...)
	pl = append(pl, 0)    // second at differential index 0 -> absolute index 2 == len(col.Txs)
	pl = append(pl, tx...)
	if btc.TxSize(tx) == 0 {
		t.Skip("the 10-byte transaction is not accepted by TxSize; witness needs a different tx")
	}
	c := cmpctSetup(t, pl)
	defer func() {
		if r := recover(); r != nil {
			t.Fatalf("F21: ProcessCmpctBlock panicked on a %d-byte payload: %v", len(pl), r)
		}
	}()
	c.ProcessCmpctBlock(&BCmsg{cmd: "cmpctblock", pl: pl})
}

// F29: when two mempool transactions map to the same short id the handler returns early
// without releasing txpool.TxMutex, which it locked a few lines above.
func TestWitnessF29CmpctTxMutexLeak(t *testing.T) {
	pl := make([]byte, 88)
	pl = append(pl, 1) // one short id
	sidpos := len(pl)
	pl = append(pl, 0, 0, 0, 0, 0, 0)
	pl = append(pl, 0) // no prefilled transactions
	c := cmpctSetup(t, pl)
	// two pool entries carrying the same transaction: same wtxid, hence the same short id
	tx := &btc.Tx{}
	tx.Hash.Hash[0] = 7
	tx.Raw = []byte{1, 2, 3}
	txpool.TxMutex.Lock()
	txpool.TransactionsToSend = map[btc.BIDX]*txpool.OneTxToSend{
		{1}: {Tx: tx}, {2}: {Tx: tx},
	}
	txpool.TxMutex.Unlock()
	// make the announced short id equal to the one of that transaction
	k0, k1 := cmpctKeys(pl[:88])
	sid := cmpctSid(k0, k1, tx.Hash.Hash[:])
	for i := 0; i < 6; i++ {
		pl[sidpos+i] = byte(sid >> (8 * uint(i)))
	}
	func() {
		defer func() {
			if r := recover(); r != nil {
				t.Logf("handler panicked: %v", r)
			}
		}()
		c.ProcessCmpctBlock(&BCmsg{cmd: "cmpctblock", pl: pl})
	}()
	if !txpool.TxMutex.TryLock() {
		t.Fatalf("F29: txpool.TxMutex is still locked after ProcessCmpctBlock returned")
	}
	txpool.TxMutex.Unlock()
}

func cmpctKeys(hdrnonce []byte) (uint64, uint64) {
	sha := sha256.New()
	sha.Write(hdrnonce)
	kks := sha.Sum(nil)
	return binary.LittleEndian.Uint64(kks[0:8]), binary.LittleEndian.Uint64(kks[8:16])
}

func cmpctSid(k0, k1 uint64, h []byte) uint64 {
	return siphash.Hash(k0, k1, h) & 0xffffffffffff
}
