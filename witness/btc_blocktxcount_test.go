package btc

import (
	"runtime"
	"testing"
)

// F31: BuildTxList sizes the transaction list from the block's txn_count field without
// looking at the block's length: an 85-byte "block" announcing 2^24 transactions allocates
// 128 MB before the first transaction fails to parse (2^31 would ask for 16 GB).
func TestWitnessF31BlockTxCountAllocation(t *testing.T) {
	raw := make([]byte, 80, 85)
	raw = append(raw, 0xfe, 0x00, 0x00, 0x00, 0x01) // txn_count = 2^24, no transactions follow
	bl, er := NewBlock(raw)
	if er != nil {
		t.Skip("NewBlock refused the input:", er)
	}
	var m0, m1 runtime.MemStats
	runtime.ReadMemStats(&m0)
	er = bl.BuildTxList()
	runtime.ReadMemStats(&m1)
	if er == nil {
		t.Fatal("BuildTxList accepted a block without transactions")
	}
	if d := m1.TotalAlloc - m0.TotalAlloc; d > 16<<20 {
		t.Fatalf("F31: an %d-byte block made BuildTxList allocate %d MB", len(raw), d>>20)
	}
}
