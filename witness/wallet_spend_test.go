package main

import (
	"os"
	"os/exec"
	"strings"
	"testing"
)

// F16: with "-f" (subtract the fee from the first amount) an amount below the fee wraps
// around uint64: the wallet then tries to send ~184 billion BTC instead of refusing.
// parse_spend may terminate the process (cleanExit), so it runs in a child process.
func TestWitnessF16FeeUnderflow(t *testing.T) {
	if os.Getenv("WITNESS_CHILD") == "1" {
		*send = "1A1zP1eP5QGefi2DMPTfTL5SLmv7DivfNa=0.00001"
		*subfee = true
		curFee = 10000
		sendTo, spendBtc = nil, 0
		parse_spend()
		if len(sendTo) == 1 && sendTo[0].amount > 21000000*1e8 {
			println("WRAPPED", sendTo[0].amount)
		}
		os.Exit(0)
	}
	cmd := exec.Command(os.Args[0], "-test.run", "TestWitnessF16FeeUnderflow")
	cmd.Env = append(os.Environ(), "WITNESS_CHILD=1")
	out, _ := cmd.CombinedOutput()
	if strings.Contains(string(out), "WRAPPED") {
		t.Fatalf("F16: requested 1000 satoshi minus a 10000 satoshi fee wrapped around: %s", out)
	}
}
