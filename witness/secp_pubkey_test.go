package secp256k1

import (
	"encoding/hex"
	"testing"
)

// F4: ParsePubkey accepts an uncompressed key that is not on the curve, and coordinates >= p
func TestWitnessF4OffCurve(t *testing.T) {
	pub := make([]byte, 65)
	pub[0] = 4
	pub[32] = 1 // x = 1
	pub[64] = 1 // y = 1 : 1 != 1 + 7
	var xy XY
	if xy.ParsePubkey(pub) {
		t.Fatalf("F4: uncompressed public key (1,1), which is not on the curve, accepted")
	}
}

func TestWitnessF4XAboveP(t *testing.T) {
	// x = p + 1 encodes the same field element as x = 1, but is not a valid encoding
	pub, _ := hex.DecodeString("02FFFFFFFFFFFFFFFFFFFFFFFFFFFFFFFFFFFFFFFFFFFFFFFFFFFFFFFEFFFFFC30")
	var xy XY
	if xy.ParsePubkey(pub) {
		t.Fatalf("F4: compressed public key with x = p+1 (>= field size) accepted")
	}
}

// F5: ParseXOnlyPubkey returns true for an x that has no point on the curve
func TestWitnessF5Unliftable(t *testing.T) {
	for x := byte(1); x < 50; x++ {
		k := make([]byte, 32)
		k[31] = x
		var xy XY
		ok := xy.ParseXOnlyPubkey(k)
		if ok && !xy.IsValid() {
			t.Fatalf("F5: ParseXOnlyPubkey accepted x=%d although no curve point has this x", x)
		}
	}
}
