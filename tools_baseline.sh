#!/bin/bash
# tools_baseline.sh [repo]: run the repository's test suite (guard off) and compare with the 87 stable passes
export GOFLAGS=-mod=mod GOPROXY=off GOSUMDB=off GOTOOLCHAIN=local
R=${1:-/repo}
cd $R && go test -json -vet=off -count=1 -timeout 25m ./... 2>/dev/null > /tmp/baseline_run.json
python3 - <<'PY'
import json
base=set(json.load(open('/root/.vp/BASELINE.json'))['stable_pass'])
got=set()
for l in open('/tmp/baseline_run.json'):
    try: d=json.loads(l)
    except: continue
    if d.get('Action')=='pass' and d.get('Test') and '/' not in d['Test']:
        got.add(d['Package']+'::'+d['Test'])
missing=sorted(base-got)
print("stable passes: %d/%d"%(len(base&got),len(base)))
for m in missing: print("MISSING", m)
PY
rm -f /tmp/baseline_run.json
