#!/bin/bash
# tools_reseed.sh <seed-id>...   re-runs the property's quick check on /repo with an already
#   confirmed seeded change applied (seeded/<id>/patch.diff), reverts, and refreshes the
#   check_* fields of seeded/<id>/confirm.json. The confirmation part (tests, demo) is not redone.
export GOFLAGS=-mod=mod GOPROXY=off GOSUMDB=off GOTOOLCHAIN=local
cd /verif
for ID in "$@"; do
  DST=/verif/seeded/$ID; PROP=${ID%%-*}
  if [ -n "$(git -C /repo status --porcelain --untracked-files=no)" ]; then echo "REFUSING: /repo has uncommitted changes"; exit 2; fi
  if ! git -C /repo apply --check $DST/patch.diff 2>/dev/null; then echo "$ID: PATCH DOES NOT APPLY"; continue; fi
  EVSAVE=$(mktemp); cp /verif/evidence/$PROP.json $EVSAVE 2>/dev/null
  git -C /repo apply $DST/patch.diff && OUT=$(/verif/check $PROP quick 2>&1); RC=$?; git -C /repo checkout -- .
  cp $EVSAVE /verif/evidence/$PROP.json 2>/dev/null; rm -f $EVSAVE
  DET=$(echo "$OUT" | grep -c "^VIOLATION")
  OUT="$OUT" python3 - "$DST/confirm.json" "$RC" "$DET" <<'PY'
import json,sys,os
p,rc,det=sys.argv[1],int(sys.argv[2]),int(sys.argv[3])
c=json.load(open(p))
c["check_exit"]=rc; c["check_violation_lines"]=det
c["check_obligations"]=[l.split("obligation=")[1].split()[0] for l in os.environ["OUT"].splitlines() if l.startswith("VIOLATION")]
json.dump(c,open(p,"w"),indent=1)
PY
  echo "$ID: exit=$RC violations=$DET $(echo "$OUT" | grep "^VIOLATION" | sed 's/.*obligation=//' | cut -d' ' -f1 | head -3 | tr '\n' ' ')"
done
