#!/bin/bash
# tools_canary.sh <fix-commit> <property> [func-regexp]
#   Must-fail self test: reverts one "fix:" commit in the working tree of /repo, runs the
#   property's check (optionally only some functions) and expects a VIOLATION; restores /repo.
export GOFLAGS=-mod=mod GOPROXY=off GOSUMDB=off GOTOOLCHAIN=local
C=$1; P=$2; F=$3
if [ -n "$(git -C /repo status --porcelain --untracked-files=no)" ]; then echo "REFUSING: /repo has uncommitted changes"; exit 2; fi
git -C /repo show $C -- . ':!*zz_verif*' | git -C /repo apply -R || { echo "cannot revert $C"; git -C /repo checkout -- .; exit 2; }
EVSAVE=$(mktemp); cp /verif/evidence/$P.json $EVSAVE 2>/dev/null
if [ -n "$F" ]; then OUT=$(timeout 1500 /verif/bin/gocv check -verif /verif -repo /repo -prop $P -func "$F" -timeout 20 2>&1); else OUT=$(timeout 3000 /verif/check $P quick 2>&1); fi
git -C /repo checkout -- .
cp $EVSAVE /verif/evidence/$P.json 2>/dev/null; rm -f $EVSAVE
echo "$OUT" | grep -E "^VIOLATION|^property" | sed 's/replay=[^ ]* //' | cut -c1-240
echo "$OUT" | grep -q "^VIOLATION" && echo "CANARY $C: detected" || echo "CANARY $C: MISSED"
